//! C16 / C18 / C32: PersistenceManager (src/persistence/mod.rs), TenantManager quotas
//! (src/persistence/tenant.rs) and GraphStateMachine (src/raft/state_machine.rs).
//!
//! usage: persist <scripts.ndjson> <trace.ndjson> mode=seq|rep|conc|free [jobs=N] [replicas=N] [runs=N] [seed=S]
//!   seq   every script segment up to a Crash step runs in a CHILD process (re-exec of this
//!         binary) whose hook callback abort()s the process at the chosen point; the parent
//!         starts the next segment (which opens a fresh PersistenceManager on the same
//!         directory and recovers).  Events: Open, Call, Crash, Restart, Recover.
//!   rep   every script (a request sequence) is applied to `replicas` GraphStateMachines on
//!         fresh stores; each is shut down, reopened and recovered.  Events: Replica, Call,
//!         Restart, Recover(rep).
//!   conc  one thread per Begin step; the hook callback parks the calling thread at every
//!         persist/* point and the scheduler releases exactly one thread per Step of the
//!         script (a TLC interleaving), then drains, observes, recovers twice.
//!   free  threads run freely; events are ordered by sequence numbers taken at the hook points
//!         (the check and the increment inside the usage lock); `runs` runs, seeded.
//! internal: persist --child <dir> <script.json> <from> <events.ndjson>
use samyama::graph::{Edge, EdgeId, EdgeType, Label, Node, NodeId, PropertyMap, PropertyValue};
use samyama::persistence::{PersistenceManager, ResourceQuotas, Wal, WalEntry};
use samyama::raft::state_machine::{GraphStateMachine, Request, Response};
use serde_json::{json, Value};
use std::cell::Cell;
use std::collections::HashMap;
use std::io::Write;
use std::path::Path;
use std::sync::atomic::{AtomicU64, AtomicUsize, Ordering};
use std::sync::mpsc::{channel, Receiver, Sender};
use std::sync::{Arc, Barrier, Mutex};
use std::time::Duration;
use verif_harness::*;

// ------------------------------------------------------------------------------------------
// values
fn props(p: i64) -> PropertyMap {
    let mut m = PropertyMap::new();
    if p != 0 {
        m.insert("k".to_string(), PropertyValue::Integer(p));
    }
    m
}

/// the model's view of a property map: 0 = empty, v = {k: v}, anything else = 99
fn pval(m: &PropertyMap) -> i64 {
    if m.is_empty() {
        return 0;
    }
    if m.len() == 1 {
        if let Some(PropertyValue::Integer(v)) = m.get("k") {
            if *v > 0 && *v < 90 {
                return *v;
            }
        }
    }
    99
}

fn labels_of(c: &Value) -> Vec<String> {
    c["labels"].as_array().map(|a| a.iter().map(|x| x.as_str().unwrap().to_string()).collect()).unwrap_or_default()
}

fn node_of(c: &Value) -> Node {
    let mut n = Node::with_labels(NodeId::new(gi(c, "id") as u64), labels_of(c).into_iter().map(Label::new));
    n.properties = props(gi(c, "p"));
    n
}

fn edge_of(c: &Value) -> Edge {
    let mut e = Edge::new(
        EdgeId::new(gi(c, "id") as u64),
        NodeId::new(gi(c, "src") as u64),
        NodeId::new(gi(c, "dst") as u64),
        EdgeType::new(gs(c, "ty")),
    );
    e.properties = props(gi(c, "p"));
    e
}

fn quotas(qn: i64, qe: i64) -> ResourceQuotas {
    let mut q = ResourceQuotas::unlimited();
    q.max_nodes = Some(qn as usize);
    q.max_edges = Some(qe as usize);
    q
}

/// tenants the script registers (Open.ts; the first is the one the generated calls are for)
fn tenants_of(open: &Value) -> Vec<String> {
    match open["ts"].as_array() {
        Some(a) if !a.is_empty() => a.iter().map(|x| x.as_str().unwrap().to_string()).collect(),
        _ => vec!["t1".to_string()],
    }
}

/// calls that give the neighbour tenants their data (Open.seed), executed right after Open
fn seed_of(open: &Value) -> Vec<Value> {
    open["seed"].as_array().cloned().unwrap_or_default()
}

fn open_pm(dir: &Path, tenants: &[String], qn: i64, qe: i64) -> Result<PersistenceManager, String> {
    let pm = PersistenceManager::new(dir).map_err(|e| e.to_string())?;
    for t in tenants {
        pm.tenants().create_tenant(t.clone(), t.clone(), Some(quotas(qn, qe))).map_err(|e| e.to_string())?;
    }
    Ok(pm)
}

/// recover(t), then recover of every other registered tenant (each is one Recover event)
fn recover_all(pm: &PersistenceManager, t: &str, tenants: &[String], rep: Option<usize>) -> Vec<Value> {
    let mut out = Vec::new();
    for x in std::iter::once(t.to_string()).chain(tenants.iter().filter(|x| x.as_str() != t).cloned()) {
        let mut ev = recover_obs(pm, &x);
        ev["ev"] = json!("Recover");
        ev["t"] = json!(x);
        if let (Some(r), true) = (rep, x == t) {
            ev["rep"] = json!(r);
        }
        out.push(ev);
    }
    out
}

/// number of trace events a script step stands for
fn events_of(step: &Value, open: &Value) -> usize {
    match gs(step, "op") {
        "Open" => 1 + seed_of(open).len(),
        "Recover" => tenants_of(open).len(),
        _ => 1,
    }
}

/// one persist_* call through the PersistenceManager API
fn do_call(pm: &PersistenceManager, c: &Value) -> &'static str {
    let t = gs(c, "t");
    let r = match gs(c, "op") {
        "CreateNode" => pm.persist_create_node(t, &node_of(c)),
        "CreateEdge" => pm.persist_create_edge(t, &edge_of(c)),
        "DeleteNode" => pm.persist_delete_node(t, gi(c, "id") as u64),
        "DeleteEdge" => pm.persist_delete_edge(t, gi(c, "id") as u64),
        "UpdateNode" => pm.persist_update_node_properties(t, gi(c, "id") as u64, &props(gi(c, "p"))),
        "UpdateEdge" => pm.persist_update_edge_properties(t, gi(c, "id") as u64, &props(gi(c, "p")), 0),
        o => panic!("unknown call {o}"),
    };
    if r.is_ok() {
        "ok"
    } else {
        "err"
    }
}

fn request_of(c: &Value) -> Request {
    let tenant = gs(c, "t").to_string();
    let id = gi(c, "id") as u64;
    match gs(c, "op") {
        "CreateNode" => Request::CreateNode { tenant, node_id: id, labels: labels_of(c), properties: props(gi(c, "p")) },
        "CreateEdge" => Request::CreateEdge {
            tenant,
            edge_id: id,
            source: gi(c, "src") as u64,
            target: gi(c, "dst") as u64,
            edge_type: gs(c, "ty").to_string(),
            properties: props(gi(c, "p")),
        },
        "DeleteNode" => Request::DeleteNode { tenant, node_id: id },
        "DeleteEdge" => Request::DeleteEdge { tenant, edge_id: id },
        "UpdateNode" => Request::UpdateNodeProperties { tenant, node_id: id, properties: props(gi(c, "p")), version: 0 },
        "UpdateEdge" => Request::UpdateEdgeProperties { tenant, edge_id: id, properties: props(gi(c, "p")), version: 0 },
        o => panic!("unknown request {o}"),
    }
}

/// PersistenceManager::recover(t) and the usage counters right after it
fn recover_obs(pm: &PersistenceManager, t: &str) -> Value {
    match pm.recover(t) {
        Ok((nodes, edges)) => {
            let mut ns: Vec<(u64, Value)> = nodes
                .iter()
                .map(|n| {
                    let mut ls: Vec<String> = n.labels.iter().map(|l| l.as_str().to_string()).collect();
                    ls.sort();
                    (n.id.as_u64(), json!({"id": n.id.as_u64(), "labels": ls, "p": pval(&n.properties)}))
                })
                .collect();
            ns.sort_by_key(|x| x.0);
            let mut es: Vec<(u64, Value)> = edges
                .iter()
                .map(|e| {
                    (
                        e.id.as_u64(),
                        json!({"id": e.id.as_u64(), "src": e.source.as_u64(), "dst": e.target.as_u64(),
                               "ty": e.edge_type.as_str(), "p": pval(&e.properties)}),
                    )
                })
                .collect();
            es.sort_by_key(|x| x.0);
            let (un, ue) = usage_of(pm, t);
            json!({"res": "ok", "obs": {"nodes": ns.into_iter().map(|x| x.1).collect::<Vec<_>>(),
                                         "edges": es.into_iter().map(|x| x.1).collect::<Vec<_>>(), "un": un, "ue": ue}})
        }
        Err(e) => json!({"res": "err", "msg": e.to_string()}),
    }
}

fn usage_of(pm: &PersistenceManager, t: &str) -> (i64, i64) {
    match pm.tenants().get_usage(t) {
        Ok(u) => (u.node_count as i64, u.edge_count as i64),
        Err(_) => (-1, -1),
    }
}

/// ids in storage and the counters (what a concurrent observer sees without side effects)
fn stored_obs(pm: &PersistenceManager, t: &str) -> Value {
    let mut n: Vec<u64> = pm.storage().scan_nodes(t).map(|v| v.iter().map(|x| x.id.as_u64()).collect()).unwrap_or_else(|_| vec![9999]);
    let mut e: Vec<u64> = pm.storage().scan_edges(t).map(|v| v.iter().map(|x| x.id.as_u64()).collect()).unwrap_or_else(|_| vec![9999]);
    n.sort();
    e.sort();
    let (un, ue) = usage_of(pm, t);
    json!({"t": t, "n": n, "e": e, "un": un, "ue": ue})
}

/// (kind, tenant, id) of every entry in the log (after a flush)
fn wal_obs(pm: &PersistenceManager, dir: &Path) -> Value {
    let _ = pm.flush();
    let mut out = Vec::new();
    if let Ok(w) = Wal::new(dir.join("wal")) {
        let _ = w.replay(0, |e| {
            match e {
                WalEntry::CreateNode { tenant, node_id, .. } => out.push(json!(["CreateNode", tenant, node_id])),
                WalEntry::CreateEdge { tenant, edge_id, .. } => out.push(json!(["CreateEdge", tenant, edge_id])),
                WalEntry::DeleteNode { tenant, node_id } => out.push(json!(["DeleteNode", tenant, node_id])),
                WalEntry::DeleteEdge { tenant, edge_id } => out.push(json!(["DeleteEdge", tenant, edge_id])),
                WalEntry::UpdateNodeProperties { tenant, node_id, .. } => out.push(json!(["UpdateNode", tenant, node_id])),
                WalEntry::UpdateEdgeProperties { tenant, edge_id, .. } => out.push(json!(["UpdateEdge", tenant, edge_id])),
                _ => {}
            }
            Ok(())
        });
    }
    Value::Array(out)
}

fn is_call(step: &Value) -> bool {
    !matches!(gs(step, "op"), "Open" | "Crash" | "Restart" | "Recover" | "Step" | "Begin")
}

fn call_event(step: &Value, res: &str) -> Value {
    json!({"ev": "Call", "call": step, "res": res})
}

// ------------------------------------------------------------------------------------------
// hook registry glue
#[cfg(samyama_ai_samyama_graph_verif)]
fn install_hook(cb: Box<dyn Fn(&str) + Send + Sync>) {
    samyama::verif::install(cb);
}
#[cfg(not(samyama_ai_samyama_graph_verif))]
fn install_hook(_cb: Box<dyn Fn(&str) + Send + Sync>) {
    panic!("built without --cfg samyama_ai_samyama_graph_verif");
}

/// persist/<op>/<point> for the model's program counter at which the process dies
fn crash_point(call: &Value, at: &str) -> Option<String> {
    let op = match gs(call, "op") {
        "CreateNode" => "create_node",
        "CreateEdge" => "create_edge",
        "DeleteNode" => "delete_node",
        "DeleteEdge" => "delete_edge",
        "UpdateNode" => "update_node",
        "UpdateEdge" => "update_edge",
        o => panic!("unknown call {o}"),
    };
    let creates = op.starts_with("create");
    let updates = op.starts_with("update");
    let pt = match at {
        "chk" => return None,                       // before the call does anything
        "wal" if creates => "after_quota",
        "wal" => return None,
        "put" => "after_wal",
        "inc" => "after_storage",
        "ret" if updates => return Some("return".to_string()), // after the last step, before the caller learns
        "ret" => "after_usage",
        a => panic!("unknown crash pc {a}"),
    };
    Some(format!("persist/{op}/{pt}"))
}

// ------------------------------------------------------------------------------------------
// seq mode: child
fn child_main(args: &[String]) -> ! {
    let dir = Path::new(&args[0]).to_path_buf();
    let script: Value = serde_json::from_str(&std::fs::read_to_string(&args[1]).unwrap()).unwrap();
    let from: usize = args[2].parse().unwrap();
    let mut out = std::fs::OpenOptions::new().create(true).append(true).open(&args[3]).unwrap();
    let steps = script.as_array().unwrap();
    let (qn, qe) = (gi(&steps[0], "qn"), gi(&steps[0], "qe"));
    let tenants = tenants_of(&steps[0]);
    let mut emit = |v: Value| {
        let mut s = serde_json::to_string(&v).unwrap();
        s.push('\n');
        out.write_all(s.as_bytes()).unwrap(); // unbuffered: survives abort()
    };
    static ARMED: Mutex<Option<String>> = Mutex::new(None);
    install_hook(Box::new(|name: &str| {
        let hit = ARMED.lock().unwrap().as_deref() == Some(name);
        if hit {
            std::process::abort();
        }
    }));
    let mut pm = match open_pm(&dir, &tenants, qn, qe) {
        Ok(p) => p,
        Err(e) => {
            emit(json!({"ev": "OpenFailed", "msg": e}));
            std::process::exit(3);
        }
    };
    let mut i = from;
    while i < steps.len() {
        let st = &steps[i];
        match gs(st, "op") {
            "Open" => {
                emit(json!({"ev": "Open", "qn": qn, "qe": qe}));
                for c in seed_of(st) {
                    let r = do_call(&pm, &c);
                    emit(call_event(&c, r));
                }
            }
            "Recover" => {
                for ev in recover_all(&pm, gs(st, "t"), &tenants, None) {
                    emit(ev);
                }
            }
            "Restart" => {
                drop(pm);
                pm = match open_pm(&dir, &tenants, qn, qe) {
                    Ok(p) => p,
                    Err(e) => {
                        emit(json!({"ev": "OpenFailed", "msg": e}));
                        std::process::exit(3);
                    }
                };
                emit(json!({"ev": "Restart"}));
            }
            "Crash" => std::process::abort(), // between calls
            _ => {
                let crash_at = steps.get(i + 1).filter(|n| gs(n, "op") == "Crash").map(|n| gs(n, "at").to_string());
                match crash_at.as_deref() {
                    None | Some("idle") => {
                        let r = do_call(&pm, st);
                        emit(call_event(st, r));
                    }
                    Some("random") => {
                        // die at an arbitrary instant around / inside the call (seeded spin, never judged)
                        let n = steps[i + 1]["n"].as_u64().unwrap_or(0);
                        std::thread::spawn(move || {
                            for _ in 0..n {
                                std::hint::spin_loop();
                            }
                            std::process::abort();
                        });
                        let r = do_call(&pm, st);
                        emit(call_event(st, r));
                        std::process::abort();
                    }
                    Some(at) => match crash_point(st, at) {
                        None => std::process::abort(),
                        Some(pt) if pt == "return" => {
                            let _ = do_call(&pm, st);
                            std::process::abort();
                        }
                        Some(pt) => {
                            *ARMED.lock().unwrap() = Some(pt);
                            let r = do_call(&pm, st);
                            // the point was not reached (the call failed earlier): it returned; die between calls
                            emit(call_event(st, r));
                            std::process::abort();
                        }
                    },
                }
            }
        }
        i += 1;
    }
    drop(pm);
    std::process::exit(0);
}

// seq mode: parent, one script
fn run_seq_script(exe: &str, steps: &[Value]) -> Vec<Value> {
    let dir = tempfile::tempdir().unwrap();
    let data = dir.path().join("d");
    let sp = dir.path().join("script.json");
    std::fs::write(&sp, serde_json::to_string(&steps).unwrap()).unwrap();
    let mut events: Vec<Value> = Vec::new();
    let mut from = 0usize;
    let mut seg = 0;
    while from < steps.len() {
        // the segment ends with the first Crash step at or after `from`
        let crash_idx = (from..steps.len()).find(|&k| gs(&steps[k], "op") == "Crash");
        let evp = dir.path().join(format!("ev{seg}.ndjson"));
        let st = std::process::Command::new(exe)
            .arg("--child")
            .arg(&data)
            .arg(&sp)
            .arg(from.to_string())
            .arg(&evp)
            .stdout(std::process::Stdio::null())
            .stderr(std::process::Stdio::null())
            .status()
            .expect("spawn child");
        let logged: Vec<Value> = std::fs::read_to_string(&evp)
            .unwrap_or_default()
            .lines()
            .filter(|l| !l.trim().is_empty())
            .filter_map(|l| serde_json::from_str(l).ok()) // a line torn by the abort was not acknowledged
            .collect();
        let nlogged = logged.len();
        events.extend(logged);
        match crash_idx {
            Some(ci) => {
                use std::os::unix::process::ExitStatusExt;
                let aborted = st.signal() == Some(libc::SIGABRT);
                // steps from..ci are executed by the child; step ci-1 may be the call the process died in
                let expected_before: usize = (from..ci).map(|k| events_of(&steps[k], &steps[0])).sum();
                if !aborted {
                    events.push(json!({"ev": "ChildFailed", "status": format!("{st:?}")}));
                    return events;
                }
                if nlogged == expected_before {
                    // every step before the Crash step was acknowledged: the process died between calls
                } else if nlogged + 1 == expected_before && is_call(&steps[ci - 1]) {
                    events.push(call_event(&steps[ci - 1], "crashed"));
                } else {
                    events.push(json!({"ev": "ChildFailed", "status": format!("died early after {nlogged} events")}));
                    return events;
                }
                events.push(json!({"ev": "Crash", "at": steps[ci]["at"]}));
                from = ci + 1;
                // a fresh process = a fresh PersistenceManager on the same directory
                seg += 1;
                if from >= steps.len() {
                    break;
                }
            }
            None => {
                if !st.success() {
                    events.push(json!({"ev": "ChildFailed", "status": format!("{st:?}")}));
                }
                break;
            }
        }
    }
    events
}

// ------------------------------------------------------------------------------------------
// rep mode
fn run_rep_script(steps: &[Value], replicas: usize, rt: &tokio::runtime::Runtime) -> Vec<Value> {
    let mut events = Vec::new();
    let (qn, qe) = (gi(&steps[0], "qn"), gi(&steps[0], "qe"));
    for r in 1..=replicas {
        let dir = tempfile::tempdir().unwrap();
        events.push(json!({"ev": "Replica", "r": r}));
        let tenants = tenants_of(&steps[0]);
        let mut pm = Arc::new(open_pm(dir.path(), &tenants, qn, qe).unwrap());
        let mut sm = GraphStateMachine::new(Arc::clone(&pm));
        let seed = seed_of(&steps[0]);
        for st in seed.iter().chain(steps[1..].iter()) {
            match gs(st, "op") {
                "Restart" => {
                    drop(sm);
                    let old = Arc::try_unwrap(pm).ok().expect("state machine still holds the manager");
                    drop(old);
                    pm = Arc::new(open_pm(dir.path(), &tenants, qn, qe).unwrap());
                    sm = GraphStateMachine::new(Arc::clone(&pm));
                    events.push(json!({"ev": "Restart"}));
                }
                "Recover" => {
                    events.extend(recover_all(&pm, gs(st, "t"), &tenants, Some(r)));
                }
                _ => {
                    let resp = rt.block_on(sm.apply(request_of(st)));
                    let res = match resp {
                        Response::Error { .. } => "err",
                        _ => "ok",
                    };
                    events.push(call_event(st, res));
                }
            }
        }
    }
    events
}

// ------------------------------------------------------------------------------------------
// conc / free mode
thread_local! { static SLOT: Cell<usize> = const { Cell::new(0) }; }   // 0 = not a worker thread

enum Msg {
    Parked(usize, String),
    Finished(usize, String),
}

struct Sched {
    to_sched: Mutex<Option<Sender<Msg>>>,
    gates: Mutex<HashMap<usize, Sender<()>>>,
}

static FREE_SEQ: AtomicU64 = AtomicU64::new(0);
static FREE_LOG: Mutex<Vec<(u64, usize, String)>> = Mutex::new(Vec::new());
static HOOK_MODE: AtomicUsize = AtomicUsize::new(0); // 0 off, 1 park (conc), 2 log (free)
static SPIN: AtomicU64 = AtomicU64::new(0);

fn sched() -> &'static Sched {
    static S: std::sync::OnceLock<Sched> = std::sync::OnceLock::new();
    S.get_or_init(|| Sched { to_sched: Mutex::new(None), gates: Mutex::new(HashMap::new()) })
}

thread_local! { static GATE: std::cell::RefCell<Option<Receiver<()>>> = const { std::cell::RefCell::new(None) }; }

fn park_here(p: usize, point: &str) {
    let tx = sched().to_sched.lock().unwrap().clone();
    if let Some(tx) = tx {
        let _ = tx.send(Msg::Parked(p, point.to_string()));
        GATE.with(|g| {
            if let Some(rx) = g.borrow().as_ref() {
                let _ = rx.recv();
            }
        });
    }
}

fn hook(name: &str) {
    let p = SLOT.with(|s| s.get());
    if p == 0 {
        return;
    }
    match HOOK_MODE.load(Ordering::SeqCst) {
        1 => {
            if name.starts_with("persist/") {
                park_here(p, name);
            }
        }
        2 => {
            let s = FREE_SEQ.fetch_add(1, Ordering::SeqCst);
            FREE_LOG.lock().unwrap().push((s, p, name.to_string()));
            // seeded perturbation of the schedule (never decides acceptance)
            let mut x = SPIN.load(Ordering::Relaxed) ^ (s.wrapping_mul(0x9E3779B97F4A7C15)) ^ ((p as u64) << 32);
            x ^= x >> 29;
            x = x.wrapping_mul(0xBF58476D1CE4E5B9);
            x ^= x >> 32;
            if !name.starts_with("tenant/") {
                match x % 4 {
                    0 => std::thread::yield_now(),
                    1 => {
                        for _ in 0..(x >> 8) % 2000 {
                            std::hint::spin_loop();
                        }
                    }
                    _ => {}
                }
            }
        }
        _ => {}
    }
}

fn point_kind(name: &str) -> &str {
    name.rsplit('/').next().unwrap_or("")
}

fn create_call(pm: &PersistenceManager, c: &Value) -> String {
    match catch(|| do_call(pm, c)) {
        Ok(r) => r.to_string(),
        Err(_) => "panic".to_string(),
    }
}

struct ConcRun {
    dir: tempfile::TempDir,
    pm: Arc<PersistenceManager>,
    calls: Vec<(usize, Value)>,
    tenants: Vec<String>,
}

fn conc_setup(steps: &[Value]) -> (ConcRun, Vec<Value>) {
    let dir = tempfile::tempdir().unwrap();
    let (qn, qe) = (gi(&steps[0], "qn"), gi(&steps[0], "qe"));
    let tenants = tenants_of(&steps[0]);
    let pm = Arc::new(open_pm(dir.path(), &tenants, qn, qe).unwrap());
    let mut events = vec![json!({"ev": "Open", "qn": qn, "qe": qe})];
    // the neighbour tenants get their data before the writers start (this thread is not a worker: no hook fires)
    for c in seed_of(&steps[0]) {
        let r = do_call(&pm, &c);
        events.push(call_event(&c, r));
    }
    let mut calls = Vec::new();
    for st in steps.iter().filter(|s| gs(s, "op") == "Begin") {
        calls.push((gi(st, "p") as usize, st["call"].clone()));
        events.push(json!({"ev": "Begin", "p": st["p"], "call": st["call"]}));
    }
    (ConcRun { dir, pm, calls, tenants }, events)
}

fn conc_epilogue(run: &ConcRun, events: &mut Vec<Value>) {
    // every registered tenant: what a scan returns and what the counters say
    let per: Vec<Value> = run.tenants.iter().map(|t| stored_obs(&run.pm, t)).collect();
    events.push(json!({"ev": "Quiesce", "ts": run.tenants, "obs": {"per": per, "wal": wal_obs(&run.pm, run.dir.path())}}));
    // recover the writers' tenant twice on the same manager, then every neighbour
    let main = run.tenants[0].clone();
    let mut ev = recover_obs(&run.pm, &main);
    ev["ev"] = json!("Recover");
    ev["t"] = json!(main);
    events.push(ev);
    events.extend(recover_all(&run.pm, &main, &run.tenants, None));
}

#[derive(Clone, PartialEq)]
enum TState {
    Parked(String),  // waiting at its gate at this point ("start" = before the call)
    Running(String), // released from this point (or blocked on a lock), has not reported yet
    Finished,
}

struct Conc<'a> {
    pm: &'a PersistenceManager,
    tenant_of: HashMap<usize, String>,
    rx: Receiver<Msg>,
    state: HashMap<usize, TState>,
    events: Vec<Value>,
    timeout: Duration,
}

impl<'a> Conc<'a> {
    /// a thread reported: update its state and record the atomic step(s) it has taken
    fn absorb(&mut self, m: Msg) {
        match m {
            Msg::Parked(p, pt) => {
                if pt != "start" {
                    let k = match point_kind(&pt) {
                        "after_quota" => "chk",
                        "after_wal" => "wal",
                        "after_storage" => "put",
                        "after_usage" => "inc",
                        o => o,
                    }
                    .to_string();
                    let mut ev = json!({"ev": "Step", "p": p, "k": k, "pt": pt, "obs": stored_obs(self.pm, &self.tenant_of[&p])});
                    if k == "chk" {
                        ev["adm"] = json!(true);
                    }
                    self.events.push(ev);
                }
                self.state.insert(p, TState::Parked(pt));
            }
            Msg::Finished(p, r) => {
                let obs = stored_obs(self.pm, &self.tenant_of[&p]);
                if self.state.get(&p) == Some(&TState::Running("start".to_string())) {
                    // returned without reaching any point: refused by the quota check
                    self.events.push(json!({"ev": "Step", "p": p, "k": "chk", "adm": false, "obs": obs}));
                }
                self.events.push(json!({"ev": "Step", "p": p, "k": "ret", "res": r, "obs": obs}));
                self.state.insert(p, TState::Finished);
            }
        }
    }

    /// let thread p take its next atomic step (no-op unless it is parked)
    fn release(&mut self, p: usize) -> bool {
        let Some(TState::Parked(from)) = self.state.get(&p).cloned() else { return false };
        self.state.insert(p, TState::Running(from));
        if let Some(g) = sched().gates.lock().unwrap().get(&p) {
            let _ = g.send(());
        }
        loop {
            match self.rx.recv_timeout(self.timeout) {
                Ok(m) => {
                    let who = match &m {
                        Msg::Parked(q, _) | Msg::Finished(q, _) => *q,
                    };
                    self.absorb(m); // (a thread that was blocked earlier may get through first)
                    if who == p {
                        return true;
                    }
                }
                // blocked on a lock held by a parked thread: it stays Running and reports later
                Err(_) => return true,
            }
        }
    }

    fn unfinished(&self) -> Vec<usize> {
        let mut v: Vec<usize> = self.state.iter().filter(|(_, s)| **s != TState::Finished).map(|(p, _)| *p).collect();
        v.sort();
        v
    }
}

fn run_conc_script(steps: &[Value]) -> Vec<Value> {
    let (run, events) = conc_setup(steps);
    let (tx, rx) = channel::<Msg>();
    *sched().to_sched.lock().unwrap() = Some(tx.clone());
    sched().gates.lock().unwrap().clear();
    HOOK_MODE.store(1, Ordering::SeqCst);
    let tenant_of: HashMap<usize, String> = run.calls.iter().map(|(p, c)| (*p, gs(c, "t").to_string())).collect();
    let mut c = Conc { pm: &run.pm, tenant_of, rx, state: HashMap::new(), events, timeout: Duration::from_millis(3000) };
    let mut handles = Vec::new();
    for (p, call) in &run.calls {
        let (gtx, grx) = channel::<()>();
        sched().gates.lock().unwrap().insert(*p, gtx);
        let pm = Arc::clone(&run.pm);
        let (p, call, tx) = (*p, call.clone(), tx.clone());
        c.state.insert(p, TState::Running("init".to_string()));
        handles.push(std::thread::spawn(move || {
            SLOT.with(|s| s.set(p));
            GATE.with(|g| *g.borrow_mut() = Some(grx));
            park_here(p, "start");
            let r = create_call(&pm, &call);
            let _ = tx.send(Msg::Finished(p, r));
        }));
    }
    drop(tx);
    // every thread first parks before its call
    for _ in 0..run.calls.len() {
        match c.rx.recv_timeout(c.timeout) {
            Ok(m) => c.absorb(m),
            Err(_) => break,
        }
    }
    // the interleaving TLC chose
    for st in steps.iter().filter(|s| gs(s, "op") == "Step") {
        c.release(gi(st, "p") as usize);
    }
    // drain deterministically: lowest unfinished thread first
    let mut hang = false;
    while !c.unfinished().is_empty() && !hang {
        let mut progressed = false;
        for p in c.unfinished() {
            progressed |= c.release(p);
        }
        if !progressed {
            match c.rx.recv_timeout(c.timeout) {
                Ok(m) => c.absorb(m),
                Err(_) => hang = true,
            }
        }
    }
    HOOK_MODE.store(0, Ordering::SeqCst);
    *sched().to_sched.lock().unwrap() = None;
    let mut events = std::mem::take(&mut c.events);
    drop(c);
    if hang {
        events.push(json!({"ev": "Hang"})); // a call never returned: no action of the specification explains this
        // do not join: the threads are stuck; they hold only this run's manager
        std::mem::forget(handles);
        return events;
    }
    for h in handles {
        let _ = h.join();
    }
    conc_epilogue(&run, &mut events);
    events
}

fn run_free(steps: &[Value], spin: u64) -> Vec<Value> {
    let (run, mut events) = conc_setup(steps);
    FREE_LOG.lock().unwrap().clear();
    FREE_SEQ.store(0, Ordering::SeqCst);
    SPIN.store(spin, Ordering::SeqCst);
    HOOK_MODE.store(2, Ordering::SeqCst);
    let barrier = Arc::new(Barrier::new(run.calls.len()));
    let mut handles = Vec::new();
    for (p, c) in &run.calls {
        let pm = Arc::clone(&run.pm);
        let (p, c, b) = (*p, c.clone(), Arc::clone(&barrier));
        handles.push(std::thread::spawn(move || {
            SLOT.with(|s| s.set(p));
            b.wait();
            let r = create_call(&pm, &c);
            let s = FREE_SEQ.fetch_add(1, Ordering::SeqCst);
            FREE_LOG.lock().unwrap().push((s, p, format!("ret/{r}")));
        }));
    }
    for h in handles {
        let _ = h.join();
    }
    HOOK_MODE.store(0, Ordering::SeqCst);
    let mut log = FREE_LOG.lock().unwrap().clone();
    log.sort();
    for (i, (_, p, name)) in log.iter().enumerate() {
        let next_of_p = log[i + 1..].iter().find(|(_, q, _)| q == p).map(|x| x.2.as_str());
        let ev = if name == "tenant/check_quota/locked" {
            // admitted iff the thread went on to a persist point
            let adm = next_of_p.map(|n| n.starts_with("persist/")).unwrap_or(false);
            Some(json!({"ev": "Step", "p": p, "k": "chk", "adm": adm, "seq": i}))
        } else if name == "tenant/increment_usage/locked" {
            Some(json!({"ev": "Step", "p": p, "k": "inc", "seq": i}))
        } else if name.starts_with("persist/") {
            match point_kind(name) {
                "after_wal" => Some(json!({"ev": "Step", "p": p, "k": "wal", "seq": i})),
                "after_storage" => Some(json!({"ev": "Step", "p": p, "k": "put", "seq": i})),
                _ => None, // after_quota / after_usage: the step itself was recorded inside the lock
            }
        } else if let Some(r) = name.strip_prefix("ret/") {
            Some(json!({"ev": "Step", "p": p, "k": "ret", "res": r, "seq": i}))
        } else {
            Some(json!({"ev": "Step", "p": p, "k": name, "seq": i}))
        };
        if let Some(e) = ev {
            events.push(e);
        }
    }
    conc_epilogue(&run, &mut events);
    events
}

// ------------------------------------------------------------------------------------------
fn run(scripts: &str, trace: &str, opts: &Opts) -> Res<()> {
    let mode = opts.get_str("mode", "seq");
    let jobs = opts.get_u64("jobs", 6) as usize;
    let scripts = read_scripts(scripts)?;
    let mut tr = Trace::create(trace)?;
    let exe = std::env::current_exe()?.to_string_lossy().to_string();
    let n = scripts.len();
    match mode.as_str() {
        "seq" | "rep" => {
            let replicas = opts.get_u64("replicas", 3) as usize;
            let next = AtomicUsize::new(0);
            let results: Vec<Mutex<Vec<Value>>> = (0..n).map(|_| Mutex::new(Vec::new())).collect();
            std::thread::scope(|sc| {
                for _ in 0..jobs.max(1) {
                    sc.spawn(|| {
                        let rt = rt();
                        loop {
                            let k = next.fetch_add(1, Ordering::SeqCst);
                            if k >= n {
                                break;
                            }
                            let ev = if mode == "seq" { run_seq_script(&exe, &scripts[k].steps) } else { run_rep_script(&scripts[k].steps, replicas, &rt) };
                            *results[k].lock().unwrap() = ev;
                        }
                    });
                }
            });
            for (k, s) in scripts.iter().enumerate() {
                tr.reset(&s.sid)?;
                for e in results[k].lock().unwrap().drain(..) {
                    tr.emit(e)?;
                }
            }
        }
        "conc" | "free" if jobs > 1 && n > 1 => {
            // the hook registry is one per process: parallelism = worker processes, each with a slice
            let dir = tempfile::tempdir()?;
            let mut kids = Vec::new();
            for j in 0..jobs.min(n) {
                let sp = dir.path().join(format!("s{j}.ndjson"));
                let tp = dir.path().join(format!("t{j}.ndjson"));
                let mut f = std::fs::File::create(&sp)?;
                for s in scripts.iter().skip(j).step_by(jobs.min(n)) {
                    writeln!(f, "{}", serde_json::to_string(&s.raw)?)?;
                }
                let mut cmd = std::process::Command::new(&exe);
                cmd.arg(&sp).arg(&tp).arg(format!("mode={mode}")).arg("jobs=1");
                for k in ["runs", "seed"] {
                    if let Some(v) = opts.0.get(k) {
                        cmd.arg(format!("{k}={v}"));
                    }
                }
                kids.push((cmd.stdout(std::process::Stdio::null()).spawn()?, tp));
            }
            for (mut k, tp) in kids {
                if !k.wait()?.success() {
                    return Err("worker process failed".into());
                }
                for line in std::fs::read_to_string(&tp)?.lines() {
                    if line.starts_with("{\"ev\":\"reset\",\"sid\":\"end\"}") || line.trim().is_empty() {
                        continue;
                    }
                    tr.emit(serde_json::from_str(line)?)?;
                }
            }
        }
        "conc" => {
            install_hook(Box::new(hook));
            for s in &scripts {
                tr.reset(&s.sid)?;
                for e in run_conc_script(&s.steps) {
                    tr.emit(e)?;
                }
            }
        }
        "free" => {
            install_hook(Box::new(hook));
            let runs = opts.get_u64("runs", 1);
            let seed = opts.get_u64("seed", 1);
            for s in &scripts {
                for r in 0..runs {
                    tr.reset(&format!("{}-run{}", s.sid, r))?;
                    for e in run_free(&s.steps, seed.wrapping_mul(1000003).wrapping_add(r)) {
                        tr.emit(e)?;
                    }
                }
            }
        }
        m => return Err(format!("unknown mode {m}").into()),
    }
    println!("{} scripts, {} events", n, tr.events);
    tr.finish()
}

fn main() {
    let args: Vec<String> = std::env::args().collect();
    if args.len() > 1 && args[1] == "--child" {
        child_main(&args[2..]);
    }
    harness_main(run);
}
