//! C23: RESP GRAPH.QUERY and the HTTP query endpoint run every statement like the engine does
//! (src/protocol/command.rs handle_graph_query, src/http/handler.rs query_handler, src/query/mod.rs).
//!
//! A `Stmt` step carries one rendered statement; the following `Engine` and `Serve` steps execute it,
//! each on its own fresh copy of the fixed graph:
//!   engine  QueryEngine::execute for a read, QueryEngine::execute_mut for a write; read or write is the
//!           engine's own verdict: the planner's `is_write` of the parsed statement, which is exactly what
//!           makes the read executor refuse a statement (EXPLAIN describes the plan and is a read)
//!   resp    CommandHandler::handle_command(["GRAPH.QUERY", "default", text])
//!   http    POST /api/query {"query": text} on HttpServer::router() (tower oneshot)
//! After each execution the whole store is dumped through the GraphStore API (nodes with labels and
//! merged properties, relationships, vector index list, SHOW INDEXES / CONSTRAINTS / HIERARCHY INDEXES)
//! and the reply is normalised to (class, columns, sorted rows of cell strings).
use samyama::graph::GraphStore;
use samyama::protocol::command::CommandHandler;
use samyama::protocol::resp::RespValue;
use samyama::query::executor::QueryPlanner;
use samyama::query::{parse_query, QueryEngine, QueryExecutor, RecordBatch, Value as QV};
use serde_json::{json, Value};
use std::sync::Arc;
use tokio::sync::RwLock;
use verif_harness::*;

pub fn fixed_graph() -> GraphStore {
    let mut st = GraphStore::new();
    let e = QueryEngine::new();
    for q in [
        // Persons carry no relationships, so that a plain `DELETE n` is a write the engine really performs
        // (a connected node is refused without DETACH); KNOWS lives between the two cities.
        "CREATE (a:Person {name:'Al Ice', age:30})",
        "CREATE (b:Person {name:'Bob', age:25})",
        "CREATE (c:City {name:'a b'})-[:KNOWS {w:1}]->(e:City {name:'c d'})",
        "CREATE INDEX ON :Person(name)",
        "CREATE CONSTRAINT ON (c:City) ASSERT c.name IS UNIQUE",
        "CREATE HIERARCHY INDEX hx ON ()-[:KNOWS]->()",
    ] {
        e.execute_mut(q, &mut st, "default").expect("fixed graph");
    }
    st
}

/// full dump as one canonical string + the abstract summary the trace spec reads
fn dump(st: &GraphStore) -> Value {
    let mut by_label: std::collections::BTreeMap<String, i64> = Default::default();
    let mut props: Vec<String> = Vec::new();
    let mut ns: Vec<String> = st
        .all_nodes()
        .iter()
        .map(|n| {
            let mut ls: Vec<String> = n.labels.iter().map(|l| l.as_str().to_string()).collect();
            ls.sort();
            for l in &ls {
                *by_label.entry(l.clone()).or_insert(0) += 1;
            }
            let mut ps: Vec<String> = st.node_properties_full(n.id).iter().map(|(k, v)| format!("{k}={v:?}")).collect();
            ps.sort();
            for p in &ps {
                props.push(format!("{}:{}", ls.join("+"), p));
            }
            format!("N{:?}{:?}{:?}", n.id, ls, ps)
        })
        .collect();
    ns.sort();
    props.sort();
    let mut es: Vec<String> = st
        .all_edges()
        .iter()
        .map(|e| {
            let mut ps: Vec<String> = e.properties.iter().map(|(k, v)| format!("{k}={v:?}")).collect();
            ps.sort();
            format!("E{:?}:{:?}->{:?}:{:?}{:?}", e.id, e.source, e.target, e.edge_type, ps)
        })
        .collect();
    es.sort();
    let mut vx: Vec<String> = st.vector_index.list_indices().iter().map(|k| format!("{}.{}", k.label, k.property_key)).collect();
    vx.sort();
    let mut schema = format!("V{vx:?}");
    for q in ["SHOW INDEXES", "SHOW CONSTRAINTS", "SHOW HIERARCHY INDEXES"] {
        let r = parse_query(q).map_err(|e| e.to_string()).and_then(|ast| QueryExecutor::new(st).execute(&ast).map_err(|e| e.to_string()));
        let mut rows: Vec<String> = match r {
            Ok(b) => b
                .records
                .iter()
                .map(|rec| {
                    b.columns
                        .iter()
                        // byte counts and staleness flags of a hierarchy index are bookkeeping, not its definition
                        .filter(|c| !matches!(c.as_str(), "bytes" | "structural_bytes" | "rollup_bytes" | "stale" | "status"))
                        .map(|c| format!("{c}={:?}", rec.get(c)))
                        .collect::<Vec<_>>()
                        .join(",")
                })
                .collect(),
            Err(e) => vec![format!("ERR {e}")],
        };
        rows.sort();
        schema.push_str(&format!(" {q}:{rows:?}"));
    }
    let full = format!("{ns:?} {es:?} {schema} n={} e={}", st.node_count(), st.edge_count());
    json!({
        "full": full,
        "nodes": st.node_count(),
        "rels": st.edge_count(),
        "labels": by_label.iter().map(|(k, v)| json!([k, v])).collect::<Vec<_>>(),
        "props": props,
        "schema": schema,
    })
}

fn cell_engine(v: &QV) -> String {
    use samyama::graph::PropertyValue as P;
    match v {
        QV::Node(id, _) | QV::NodeRef(id) => format!("node:{}", id.as_u64()),
        QV::Edge(id, _) => format!("edge:{}", id.as_u64()),
        QV::EdgeRef(id, ..) => format!("edge:{}", id.as_u64()),
        QV::Null => "null".into(),
        QV::Property(p) => match p {
            P::String(s) => s.clone(),
            P::Integer(i) => i.to_string(),
            P::Boolean(b) => b.to_string(),
            P::Float(f) => f.to_string(),
            P::Null => "null".into(),
            other => format!("other:{other:?}"),
        },
        other => format!("other:{other:?}"),
    }
}

fn norm_engine(r: Result<RecordBatch, String>) -> Value {
    match r {
        Err(e) => json!({"out": "refused", "cols": [], "rows": [], "err": e}),
        Ok(b) => {
            let mut rows: Vec<String> = b
                .records
                .iter()
                .map(|rec| b.columns.iter().map(|c| rec.get(c).map(cell_engine).unwrap_or_else(|| "null".into())).collect::<Vec<_>>().join("|"))
                .collect();
            rows.sort();
            json!({"out": "rows", "cols": b.columns, "rows": rows, "err": ""})
        }
    }
}

fn id_in(s: &str, open: &str) -> Option<String> {
    // "Node(NodeId(3))" / "Edge(EdgeId(1), 1 -> 2)"
    let i = s.find(open)? + open.len();
    let d: String = s[i..].chars().take_while(|c| c.is_ascii_digit()).collect();
    if d.is_empty() {
        None
    } else {
        Some(d)
    }
}

fn cell_resp(v: &RespValue) -> String {
    match v {
        RespValue::Integer(i) => i.to_string(),
        RespValue::Null | RespValue::BulkString(None) => "null".into(),
        RespValue::BulkString(Some(b)) => {
            let s = String::from_utf8_lossy(b).to_string();
            if s.starts_with("Node(NodeId(") {
                format!("node:{}", id_in(&s, "NodeId(").unwrap_or_default())
            } else if s.starts_with("Edge(EdgeId(") {
                format!("edge:{}", id_in(&s, "EdgeId(").unwrap_or_default())
            } else if s == "Null" {
                // format_value renders a null property value with {:?}
                "null".into()
            } else {
                s
            }
        }
        RespValue::SimpleString(s) => s.clone(),
        RespValue::Error(e) => format!("error:{e}"),
        RespValue::Array(a) => format!("other:[{}]", a.iter().map(cell_resp).collect::<Vec<_>>().join(",")),
    }
}

fn norm_resp(v: &RespValue) -> Value {
    match v {
        RespValue::Error(e) => json!({"out": "refused", "cols": [], "rows": [], "err": e}),
        RespValue::Array(a) if !a.is_empty() => {
            let cols: Vec<String> = match &a[0] {
                RespValue::Array(h) => h.iter().map(cell_resp).collect(),
                other => vec![format!("badheader:{other:?}")],
            };
            let mut rows: Vec<String> = a[1..]
                .iter()
                .map(|r| match r {
                    RespValue::Array(cs) => cs.iter().map(cell_resp).collect::<Vec<_>>().join("|"),
                    other => format!("badrow:{other:?}"),
                })
                .collect();
            rows.sort();
            json!({"out": "rows", "cols": cols, "rows": rows, "err": ""})
        }
        other => json!({"out": "other", "cols": [], "rows": [], "err": format!("{other:?}")}),
    }
}

fn cell_http(v: &Value) -> String {
    match v {
        Value::Null => "null".into(),
        Value::Bool(b) => b.to_string(),
        Value::Number(n) => match (n.as_i64(), n.as_f64()) {
            (Some(i), _) => i.to_string(),
            (None, Some(f)) => f.to_string(),
            _ => n.to_string(),
        },
        Value::String(s) => s.clone(),
        Value::Object(o) if o.contains_key("id") && o.contains_key("labels") => format!("node:{}", o["id"].as_str().unwrap_or("?")),
        Value::Object(o) if o.contains_key("id") && o.contains_key("source") => format!("edge:{}", o["id"].as_str().unwrap_or("?")),
        other => format!("other:{other}"),
    }
}

fn norm_http(status: u16, body: &Value) -> Value {
    if status == 200 && body["records"].is_array() {
        let cols: Vec<String> = body["columns"].as_array().map(|a| a.iter().map(cell_http).collect()).unwrap_or_default();
        let mut rows: Vec<String> = body["records"]
            .as_array()
            .unwrap()
            .iter()
            .map(|r| r.as_array().map(|cs| cs.iter().map(cell_http).collect::<Vec<_>>().join("|")).unwrap_or_else(|| "badrow".into()))
            .collect();
        rows.sort();
        json!({"out": "rows", "cols": cols, "rows": rows, "err": ""})
    } else if status == 400 && body["error"].is_string() {
        json!({"out": "refused", "cols": [], "rows": [], "err": body["error"]})
    } else {
        json!({"out": "other", "cols": [], "rows": [], "err": format!("{status} {body}")})
    }
}

fn with_dump(mut o: Value, d: Value) -> Value {
    o["dump"] = d;
    o
}

fn panic_obs(msg: String) -> Value {
    json!({"out": "panic", "cols": [], "rows": [], "err": msg, "dump": {"full": "?", "nodes": -1, "rels": -1, "labels": [], "props": [], "schema": "?"}})
}

/// the engine's own verdict on the parsed statement
fn engine_class(text: &str, st: &GraphStore) -> &'static str {
    match parse_query(text) {
        Err(_) => "read",
        Ok(q) => {
            if q.explain || q.call_subquery.is_some() {
                return "read";
            }
            match QueryPlanner::new().plan(&q, st) {
                Ok(p) if p.is_write => "write",
                _ => "read",
            }
        }
    }
}

fn run_engine(text: &str) -> Value {
    let mut st = fixed_graph();
    let e = QueryEngine::new();
    let cls = match catch(|| engine_class(text, &st)) {
        Ok(c) => c,
        Err(_) => "read",
    };
    let r = catch(|| {
        if cls == "write" {
            e.execute_mut(text, &mut st, "default").map_err(|x| x.to_string())
        } else {
            e.execute(text, &st).map_err(|x| x.to_string())
        }
    });
    let mut o = match r {
        Err(m) => return with_cls(panic_obs(m), cls),
        Ok(r) => norm_engine(r),
    };
    o = with_dump(o, dump(&st));
    with_cls(o, cls)
}

fn with_cls(mut o: Value, cls: &str) -> Value {
    o["cls"] = json!(cls);
    o
}

fn bulk(s: &str) -> RespValue {
    RespValue::BulkString(Some(s.as_bytes().to_vec()))
}

fn run_resp(rt: &tokio::runtime::Runtime, text: &str) -> Value {
    let store = Arc::new(RwLock::new(fixed_graph()));
    let h = CommandHandler::new(None);
    let cmd = RespValue::Array(vec![bulk("GRAPH.QUERY"), bulk("default"), bulk(text)]);
    let r = catch(|| rt.block_on(h.handle_command(&cmd, &store)));
    match r {
        Err(m) => panic_obs(m),
        Ok(v) => {
            let g = rt.block_on(store.read());
            with_dump(norm_resp(&v), dump(&g))
        }
    }
}

fn run_http(rt: &tokio::runtime::Runtime, text: &str) -> Value {
    use http_body_util::BodyExt;
    use tower::ServiceExt;
    let store = Arc::new(RwLock::new(fixed_graph()));
    let router = samyama::http::HttpServer::new(Arc::clone(&store), 0).router();
    let req = axum::http::Request::builder()
        .method("POST")
        .uri("/api/query")
        .header("content-type", "application/json")
        .body(axum::body::Body::from(json!({"query": text}).to_string()))
        .unwrap();
    let r = catch(|| {
        rt.block_on(async {
            let r = router.oneshot(req).await.unwrap();
            let st = r.status().as_u16();
            let b = r.into_body().collect().await.unwrap().to_bytes();
            (st, serde_json::from_slice::<Value>(&b).unwrap_or(Value::Null))
        })
    });
    match r {
        Err(m) => panic_obs(m),
        Ok((status, body)) => {
            let g = rt.block_on(store.read());
            with_dump(norm_http(status, &body), dump(&g))
        }
    }
}

fn run(scripts: &str, trace: &str, _opts: &Opts) -> Res<()> {
    let scripts = read_scripts(scripts)?;
    let mut tr = Trace::create(trace)?;
    std::panic::set_hook(Box::new(|_| {}));
    let rt = rt();
    let g0 = dump(&fixed_graph());
    for s in &scripts {
        tr.reset(&s.sid)?;
        let mut text = String::new();
        for step in &s.steps {
            match gs(step, "op") {
                // the statement of the following Engine / Serve steps
                "Stmt" => {
                    text = gs(step, "text").to_string();
                    tr.emit(event_from(step, json!({"obs": {"upper": text.trim().to_uppercase()}})))?;
                }
                "Engine" => {
                    let mut o = run_engine(&text);
                    o["g0"] = g0["full"].clone();
                    tr.emit(event_from(step, json!({"obs": o})))?;
                }
                "Serve" => {
                    let o = if gs(step, "r") == "resp" { run_resp(&rt, &text) } else { run_http(&rt, &text) };
                    tr.emit(event_from(step, json!({"obs": o})))?;
                }
                other => panic!("unknown op {other}"),
            }
        }
    }
    tr.finish()
}

fn main() {
    harness_main(run);
}
