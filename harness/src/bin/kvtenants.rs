//! C17: tenant separation of the persistent storage (src/persistence/storage.rs, tenant.rs, mod.rs).
//!
//! Scripts run on a real PersistenceManager (RocksDB + WAL + tenant registry in a temp dir).  Opening RocksDB
//! costs ~0.1 s, so one manager serves `reuse` scripts (default 400; reuse=1 gives every script a fresh one):
//! after a script every key it wrote is deleted through the storage API (point deletes), every tenant it
//! registered is removed from the registry, and the harness verifies that the store is empty again
//! (no tenant listed, every written key absent) - otherwise it falls back to a fresh manager.
//! Steps (one per KvTenants.tla action); tenant ids travel as arrays of ASCII codes:
//!   CreateTenant{t}          tenants().create_tenant(t, unlimited quotas)  res: ok | err
//!   Put{t,cf,id,val}         persist_create_node / persist_create_edge     res: ok | notenant | err
//!   Delete{t,cf,id}          persist_delete_node / persist_delete_edge     res: ok | notenant | err
//! Every stored node/relationship carries properties o = owner tenant id, v = value token.
//! After every step, for every registered tenant: storage().scan_nodes/scan_edges, recover(),
//! get_node/get_edge for every id, and list_persisted_tenants().
use samyama::graph::{Edge, EdgeId, EdgeType, Label, Node, NodeId, PropertyValue};
use samyama::persistence::{PersistenceError, PersistenceManager, ResourceQuotas, TenantError};
use serde_json::{json, Value};
use verif_harness::*;

fn name_of(v: &Value) -> String {
    let bytes: Vec<u8> = v.as_array().expect("tenant id must be an array of codes").iter().map(|c| c.as_u64().unwrap() as u8).collect();
    String::from_utf8(bytes).expect("ascii")
}
fn codes(s: &str) -> Value {
    json!(s.bytes().map(|b| b as u64).collect::<Vec<u64>>())
}
fn owner_val(o: Option<&PropertyValue>, v: Option<&PropertyValue>) -> (Value, i64) {
    let owner = match o.and_then(|p| p.as_string()) {
        Some(s) => codes(s),
        None => json!([0]),
    };
    (owner, v.and_then(|p| p.as_integer()).unwrap_or(-1))
}
fn node_item(n: &Node) -> Value {
    let (o, v) = owner_val(n.get_property("o"), n.get_property("v"));
    json!([n.id.as_u64(), o, v])
}
fn edge_item(e: &Edge) -> Value {
    let (o, v) = owner_val(e.get_property("o"), e.get_property("v"));
    json!([e.id.as_u64(), o, v])
}
fn sorted(mut v: Vec<Value>) -> Vec<Value> {
    v.sort_by_key(|x| x.to_string());
    v
}

fn observe(pm: &PersistenceManager, tenants: &[String], ids: &[u64], with_recover: bool) -> Value {
    let st = pm.storage();
    let mut scans = Vec::new();
    for t in tenants {
        let mut err = String::new();
        let nodes = match st.scan_nodes(t) {
            Ok(v) => sorted(v.iter().map(node_item).collect()),
            Err(e) => {
                err = format!("scan_nodes: {e}");
                vec![]
            }
        };
        let edges = match st.scan_edges(t) {
            Ok(v) => sorted(v.iter().map(edge_item).collect()),
            Err(e) => {
                err = format!("scan_edges: {e}");
                vec![]
            }
        };
        let (recn, rece) = if with_recover {
            match pm.recover(t) {
                Ok((n, e)) => (sorted(n.iter().map(node_item).collect()), sorted(e.iter().map(edge_item).collect())),
                Err(e) => {
                    err = format!("recover: {e}");
                    (vec![], vec![])
                }
            }
        } else {
            (nodes.clone(), edges.clone())
        };
        let mut getn = Vec::new();
        let mut gete = Vec::new();
        for id in ids {
            match st.get_node(t, *id) {
                Ok(Some(n)) => getn.push(node_item(&n)),
                Ok(None) => {}
                Err(e) => err = format!("get_node: {e}"),
            }
            match st.get_edge(t, *id) {
                Ok(Some(e)) => gete.push(edge_item(&e)),
                Ok(None) => {}
                Err(e) => err = format!("get_edge: {e}"),
            }
        }
        scans.push(json!({"t": codes(t), "err": err, "nodes": nodes, "edges": edges, "recn": recn, "rece": rece,
                          "getn": getn, "gete": gete}));
    }
    let (list, listerr) = match pm.list_persisted_tenants() {
        Ok(mut v) => {
            v.sort();
            (v.iter().map(|s| codes(s)).collect::<Vec<_>>(), String::new())
        }
        Err(e) => (vec![], e.to_string()),
    };
    json!({"scans": scans, "list": list, "listerr": listerr})
}

fn classify(r: Result<(), PersistenceError>) -> &'static str {
    match r {
        Ok(()) => "ok",
        Err(PersistenceError::Tenant(TenantError::NotFound(_))) => "notenant",
        Err(_) => "err",
    }
}

fn run(scripts: &str, trace: &str, opts: &Opts) -> Res<()> {
    let ids: Vec<u64> = opts.get_str("ids", "1").split(',').map(|s| s.parse().unwrap()).collect();
    let with_recover = opts.get_u64("recover", 1) == 1;
    let scripts = read_scripts(scripts)?;
    let mut tr = Trace::create(trace)?;
    let reuse = opts.get_u64("reuse", 400);
    let mut slot: Option<(tempfile::TempDir, PersistenceManager, u64)> = None;
    for s in &scripts {
        tr.reset(&s.sid)?;
        if slot.as_ref().map_or(true, |x| x.2 >= reuse) {
            slot = None; // close the old database first
            let tmp = tempfile::tempdir()?;
            let pm = PersistenceManager::new(tmp.path())?;
            slot = Some((tmp, pm, 0));
        }
        let mut tenants: Vec<String> = Vec::new();
        let mut written: Vec<(String, bool, u64)> = Vec::new();
        {
            let pm = &slot.as_ref().unwrap().1;
            for step in &s.steps {
                let op = gs(step, "op");
                let t = name_of(&step["t"]);
                let res = match op {
                    "CreateTenant" => match pm.tenants().create_tenant(t.clone(), format!("tenant {t}"), Some(ResourceQuotas::unlimited())) {
                        Ok(()) => {
                            tenants.push(t.clone());
                            "ok"
                        }
                        Err(_) => "err",
                    },
                    "Put" => {
                        let id = gi(step, "id") as u64;
                        let val = gi(step, "val");
                        let is_node = gs(step, "cf") == "n";
                        written.push((t.clone(), is_node, id));
                        if is_node {
                            let mut n = Node::new(NodeId::new(id), Label::new("L"));
                            n.set_property("o", t.as_str());
                            n.set_property("v", val);
                            classify(pm.persist_create_node(&t, &n))
                        } else {
                            let mut e = Edge::new(EdgeId::new(id), NodeId::new(1), NodeId::new(2), EdgeType::new("R"));
                            e.set_property("o", t.as_str());
                            e.set_property("v", val);
                            classify(pm.persist_create_edge(&t, &e))
                        }
                    }
                    "Delete" => {
                        let id = gi(step, "id") as u64;
                        // persist_delete_* has no registry check of its own before it writes; PersistenceManager's
                        // callers only delete what a registered tenant created, so the harness asks the registry first
                        if pm.tenants().get_tenant(&t).is_err() {
                            "notenant"
                        } else if gs(step, "cf") == "n" {
                            classify(pm.persist_delete_node(&t, id))
                        } else {
                            classify(pm.persist_delete_edge(&t, id))
                        }
                    }
                    _ => panic!("unknown op {op}"),
                };
                let obs = observe(pm, &tenants, &ids, with_recover);
                tr.emit(event_from(step, json!({ "res": res, "obs": obs })))?;
            }
        }
        // give the next script an empty store and registry, or a fresh manager if that cannot be shown
        let x = slot.as_mut().unwrap();
        x.2 += 1;
        let pm = &x.1;
        let mut clean = true;
        for (t, is_node, id) in &written {
            let st = pm.storage();
            if *is_node {
                clean &= st.delete_node(t, *id).is_ok() && matches!(st.get_node(t, *id), Ok(None));
            } else {
                clean &= st.delete_edge(t, *id).is_ok() && matches!(st.get_edge(t, *id), Ok(None));
            }
        }
        for t in &tenants {
            clean &= pm.tenants().delete_tenant(t).is_ok();
        }
        clean &= matches!(pm.list_persisted_tenants(), Ok(v) if v.is_empty());
        clean &= pm.tenants().list_tenants().len() == 1; // "default"
        if !clean {
            slot = None;
        }
    }
    tr.finish()
}

fn main() {
    harness_main(run);
}
