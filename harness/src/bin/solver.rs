//! C34: every solver of crates/samyama-optimization on generated box-constrained problems, each run TWICE with the same
//! seed: inside a rayon pool of 1 thread and inside a pool of 8 threads.  impl -> spec only: spec/Solver_Trace.tla judges
//! every run (bounds, reported = recomputed fitness, history never worse, non-dominated front, identical pair).
//!
//! Script step: {"op":"Pair","solver":NAME,"dim":1..6,"box":KIND,"obj":KIND,"pen":bool,"seed":N,"pop":N,"iters":N}
//! Trace events of one script (one pair):
//!   {"ev":"Start","run":1|2,"threads":1|8,"solver":..,"kind":"so"|"mo","lo":[r..],"hi":[r..],"zero":r}
//!   {"ev":"Iter","best":r}                                        one per entry of the returned history
//!   {"ev":"Done","res":"ok","reported":r,"recomputed":r,"vars":[r..],"front":[{"vars":[r..],"fit":[r..],"refit":[r..],"viol":r}]}
//!   {"ev":"Done","res":"panic","why":..}
//! where every r is the DENSE RANK of the f64 among all f64 of the script (NaN = -1); `recomputed`, `refit` and `viol`
//! are computed by the harness from the returned variables with the problem it supplied.
use ndarray::Array1;
use samyama_optimization::algorithms::*;
use samyama_optimization::common::*;
use serde_json::{json, Value};
use verif_harness::*;

// ------------------------------------------------------------------ problems
#[derive(Clone)]
struct Prob {
    lo: Vec<f64>,
    hi: Vec<f64>,
    obj: String,
    pen: bool,
    c: Vec<f64>, // per-coordinate shift / weight, derived from the seed
}

fn splitmix(x: &mut u64) -> u64 {
    *x = x.wrapping_add(0x9E37_79B9_7F4A_7C15);
    let mut z = *x;
    z = (z ^ (z >> 30)).wrapping_mul(0xBF58_476D_1CE4_E5B9);
    z = (z ^ (z >> 27)).wrapping_mul(0x94D0_49BB_1331_11EB);
    z ^ (z >> 31)
}
fn unit(x: &mut u64) -> f64 {
    (splitmix(x) >> 11) as f64 / (1u64 << 53) as f64
}

fn make_box(kind: &str, dim: usize, s: &mut u64) -> (Vec<f64>, Vec<f64>) {
    let mut lo = vec![0.0; dim];
    let mut hi = vec![0.0; dim];
    for i in 0..dim {
        let (l, h) = match kind {
            "sym" => (-5.0, 5.0),
            "asym" => (-1.0 - 0.5 * i as f64, 100.0 * (i + 1) as f64),
            "pos" => (2.0, 7.0 + i as f64),
            "neg" => (-9.0 - i as f64, -3.0),
            "degen" => if i % 2 == 0 { (1.5, 1.5) } else { (-2.0, 3.0) },
            "alldegen" => (-0.75 + i as f64, -0.75 + i as f64),
            "tiny" => (1e-9, 2e-9),
            "huge" => (-1e12, 3e12),
            "mixed" => {
                let a = (unit(s) - 0.5) * 40.0;
                let w = match splitmix(s) % 4 { 0 => 0.0, 1 => 1e-6, 2 => 1.0, _ => 250.0 };
                (a, a + w)
            }
            _ => panic!("unknown box {kind}"),
        };
        lo[i] = l;
        hi[i] = h;
    }
    (lo, hi)
}

fn objective(p: &Prob, v: &Array1<f64>) -> f64 {
    match p.obj.as_str() {
        "sphere" => v.iter().map(|x| x * x).sum(),
        "shift" => v.iter().zip(&p.c).map(|(x, c)| (x - c) * (x - c)).sum(),
        "lin" => v.iter().zip(&p.c).map(|(x, c)| x * c).sum(),
        "ras" => v.iter().map(|x| x * x - 10.0 * (2.0 * std::f64::consts::PI * x).cos() + 10.0).sum(),
        "negsphere" => -v.iter().map(|x| x * x).sum::<f64>(),
        // piecewise constant: whole regions of the box have bit-identical fitness (exact ties between candidates)
        "plateau" => v.iter().map(|x| x.floor() * x.floor()).sum(),
        o => panic!("unknown objective {o}"),
    }
}
fn penalty(p: &Prob, v: &Array1<f64>) -> f64 {
    if !p.pen {
        return 0.0;
    }
    // half-space constraint  sum(x) <= t  with t the middle of the box's sum range
    let t: f64 = p.lo.iter().zip(&p.hi).map(|(l, h)| 0.5 * (l + h)).sum();
    let s: f64 = v.iter().sum();
    let g = (s - t).max(0.0);
    100.0 * g * g
}

impl Problem for Prob {
    fn objective(&self, v: &Array1<f64>) -> f64 {
        objective(self, v)
    }
    fn penalty(&self, v: &Array1<f64>) -> f64 {
        penalty(self, v)
    }
    fn dim(&self) -> usize {
        self.lo.len()
    }
    fn bounds(&self) -> (Array1<f64>, Array1<f64>) {
        (Array1::from(self.lo.clone()), Array1::from(self.hi.clone()))
    }
}
impl MultiObjectiveProblem for Prob {
    fn objectives(&self, v: &Array1<f64>) -> Vec<f64> {
        let f1 = objective(self, v);
        let f2: f64 = v.iter().zip(&self.hi).map(|(x, h)| (x - h) * (x - h)).sum();
        vec![f1, f2]
    }
    fn penalties(&self, v: &Array1<f64>) -> Vec<f64> {
        if self.pen { vec![penalty(self, v)] } else { vec![] }
    }
    fn dim(&self) -> usize {
        self.lo.len()
    }
    fn bounds(&self) -> (Array1<f64>, Array1<f64>) {
        (Array1::from(self.lo.clone()), Array1::from(self.hi.clone()))
    }
    fn num_objectives(&self) -> usize {
        2
    }
}

// ------------------------------------------------------------------ solvers
pub const SO_SOLVERS: &[&str] = &[
    "Jaya", "Rao1", "Rao2", "Rao3", "TLBO", "BMR", "BWR", "QOJaya", "ITLBO", "PSO", "DE", "GOTLBO", "Firefly", "Cuckoo", "GWO", "GA",
    "SA", "Bat", "ABC", "GSA", "HS", "FPA", "BMWR", "SAMPJaya", "EHRJaya", "QORao1", "QORao2", "QORao3", "SAPHR",
];
pub const MO_SOLVERS: &[&str] = &["NSGA2", "MOTLBO", "MOBMR", "MOBWR", "MOBMWR", "MORaoDE"];

fn solve_so(name: &str, cfg: SolverConfig, seed: u64, p: &Prob) -> OptimizationResult {
    macro_rules! go {
        ($s:expr) => {
            $s.with_seed(seed).solve(p)
        };
    }
    match name {
        "Jaya" => go!(JayaSolver::new(cfg)),
        "Rao1" => go!(RaoSolver::new(cfg, RaoVariant::Rao1)),
        "Rao2" => go!(RaoSolver::new(cfg, RaoVariant::Rao2)),
        "Rao3" => go!(RaoSolver::new(cfg, RaoVariant::Rao3)),
        "TLBO" => go!(TLBOSolver::new(cfg)),
        "BMR" => go!(BMRSolver::new(cfg)),
        "BWR" => go!(BWRSolver::new(cfg)),
        "QOJaya" => go!(QOJayaSolver::new(cfg)),
        "ITLBO" => go!(ITLBOSolver::new(cfg)),
        "PSO" => go!(PSOSolver::new(cfg)),
        "DE" => go!(DESolver::new(cfg)),
        "GOTLBO" => go!(GOTLBOSolver::new(cfg)),
        "Firefly" => go!(FireflySolver::new(cfg)),
        "Cuckoo" => go!(CuckooSolver::new(cfg)),
        "GWO" => go!(GWOSolver::new(cfg)),
        "GA" => go!(GASolver::new(cfg)),
        "SA" => go!(SASolver::new(cfg)),
        "Bat" => go!(BatSolver::new(cfg)),
        "ABC" => go!(ABCSolver::new(cfg)),
        "GSA" => go!(GSASolver::new(cfg)),
        "HS" => go!(HSSolver::new(cfg)),
        "FPA" => go!(FPASolver::new(cfg)),
        "BMWR" => go!(BMWRSolver::new(cfg)),
        "SAMPJaya" => go!(SAMPJayaSolver::new(cfg)),
        "EHRJaya" => go!(EHRJayaSolver::new(cfg)),
        "QORao1" => go!(QORaoSolver::new(cfg, RaoVariant::Rao1)),
        "QORao2" => go!(QORaoSolver::new(cfg, RaoVariant::Rao2)),
        "QORao3" => go!(QORaoSolver::new(cfg, RaoVariant::Rao3)),
        "SAPHR" => go!(SAPHRSolver::new(cfg)),
        _ => panic!("unknown single-objective solver {name}"),
    }
}

fn solve_mo(name: &str, cfg: SolverConfig, seed: u64, p: &Prob) -> MultiObjectiveResult {
    match name {
        "NSGA2" => NSGA2Solver::new(cfg).with_seed(seed).solve(p),
        "MOTLBO" => MOTLBOSolver::new(cfg).with_seed(seed).solve(p),
        "MOBMR" => MOBMWRSolver::new(cfg, MOBMWRVariant::MOBMR).with_seed(seed).solve(p),
        "MOBWR" => MOBMWRSolver::new(cfg, MOBMWRVariant::MOBWR).with_seed(seed).solve(p),
        "MOBMWR" => MOBMWRSolver::new(cfg, MOBMWRVariant::MOBMWR).with_seed(seed).solve(p),
        "MORaoDE" => MORaoDESolver::new(cfg).with_seed(seed).solve(p),
        _ => panic!("unknown multi-objective solver {name}"),
    }
}

// ------------------------------------------------------------------ raw (float) events, ranked afterwards
enum Raw {
    Start { run: u32, threads: usize },
    Iter(f64),
    DoneSo { reported: f64, recomputed: f64, vars: Vec<f64> },
    DoneMo { front: Vec<(Vec<f64>, Vec<f64>, Vec<f64>, f64)> },
    Panic(String),
}

fn one_run(name: &str, mo: bool, cfg: &SolverConfig, seed: u64, p: &Prob, pool: &rayon::ThreadPool, out: &mut Vec<Raw>) {
    if mo {
        match catch(|| pool.install(|| solve_mo(name, cfg.clone(), seed, p))) {
            Ok(r) => {
                for h in &r.history {
                    out.push(Raw::Iter(*h));
                }
                let front = r
                    .pareto_front
                    .iter()
                    .map(|m| {
                        let refit = MultiObjectiveProblem::objectives(p, &m.variables);
                        let viol: f64 = MultiObjectiveProblem::penalties(p, &m.variables).iter().sum();
                        (m.variables.to_vec(), m.fitness.clone(), refit, viol)
                    })
                    .collect();
                out.push(Raw::DoneMo { front });
            }
            Err(e) => out.push(Raw::Panic(e)),
        }
    } else {
        match catch(|| pool.install(|| solve_so(name, cfg.clone(), seed, p))) {
            Ok(r) => {
                for h in &r.history {
                    out.push(Raw::Iter(*h));
                }
                let recomputed = Problem::fitness(p, &r.best_variables);
                out.push(Raw::DoneSo { reported: r.best_fitness, recomputed, vars: r.best_variables.to_vec() });
            }
            Err(e) => out.push(Raw::Panic(e)),
        }
    }
}

fn floats_of(raw: &[Raw], p: &Prob) -> Vec<f64> {
    let mut fs: Vec<f64> = vec![0.0];
    fs.extend(&p.lo);
    fs.extend(&p.hi);
    for e in raw {
        match e {
            Raw::Iter(b) => fs.push(*b),
            Raw::DoneSo { reported, recomputed, vars } => {
                fs.push(*reported);
                fs.push(*recomputed);
                fs.extend(vars);
            }
            Raw::DoneMo { front } => {
                for (v, f, rf, viol) in front {
                    fs.extend(v);
                    fs.extend(f);
                    fs.extend(rf);
                    fs.push(*viol);
                }
            }
            _ => {}
        }
    }
    let mut fs: Vec<f64> = fs.into_iter().filter(|x| !x.is_nan()).collect();
    fs.sort_by(|a, b| a.partial_cmp(b).unwrap());
    fs.dedup_by(|a, b| a == b); // -0.0 == 0.0: one rank
    fs
}

fn rank(sorted: &[f64], x: f64) -> i64 {
    if x.is_nan() {
        return -1;
    }
    sorted.partition_point(|y| *y < x) as i64
}

fn run(scripts: &str, trace: &str, opts: &Opts) -> Res<()> {
    let scripts = read_scripts(scripts)?;
    let mut tr = Trace::create(trace)?;
    let t_many = opts.get_u64("threads", 8) as usize;
    let pool1 = rayon::ThreadPoolBuilder::new().num_threads(1).build()?;
    let pool8 = rayon::ThreadPoolBuilder::new().num_threads(t_many).build()?;
    // the solvers print progress lines; keep the panic hook quiet as well (panics are data)
    std::panic::set_hook(Box::new(|_| {}));
    let (mut pairs, mut panics) = (0u64, 0u64);
    for s in &scripts {
        tr.reset(&s.sid)?;
        for step in &s.steps {
            assert_eq!(gs(step, "op"), "Pair");
            let name = gs(step, "solver");
            let mo = MO_SOLVERS.contains(&name);
            let dim = gi(step, "dim") as usize;
            let seed = gi(step, "seed") as u64;
            let mut st = seed ^ 0xC34;
            let (lo, hi) = make_box(gs(step, "box"), dim, &mut st);
            let c: Vec<f64> = (0..dim).map(|_| (unit(&mut st) - 0.5) * 20.0).collect();
            let p = Prob { lo, hi, obj: gs(step, "obj").to_string(), pen: step["pen"].as_bool().unwrap_or(false), c };
            let cfg = SolverConfig { population_size: gi(step, "pop") as usize, max_iterations: gi(step, "iters") as usize };
            let mut raw = Vec::new();
            raw.push(Raw::Start { run: 1, threads: 1 });
            one_run(name, mo, &cfg, seed, &p, &pool1, &mut raw);
            raw.push(Raw::Start { run: 2, threads: t_many });
            one_run(name, mo, &cfg, seed, &p, &pool8, &mut raw);
            let sorted = floats_of(&raw, &p);
            let rk = |x: f64| rank(&sorted, x);
            let rks = |v: &[f64]| v.iter().map(|x| rank(&sorted, *x)).collect::<Vec<i64>>();
            pairs += 1;
            for e in &raw {
                let ev = match e {
                    Raw::Start { run, threads } => json!({"ev": "Start", "run": run, "threads": threads, "solver": name,
                        "kind": if mo { "mo" } else { "so" }, "lo": rks(&p.lo), "hi": rks(&p.hi), "zero": rk(0.0),
                        "problem": step}),
                    Raw::Iter(b) => json!({"ev": "Iter", "best": rk(*b)}),
                    Raw::DoneSo { reported, recomputed, vars } => json!({"ev": "Done", "res": "ok", "solver": name, "reported": rk(*reported),
                        "recomputed": rk(*recomputed), "vars": rks(vars), "front": []}),
                    Raw::DoneMo { front } => {
                        let fr: Vec<Value> = front.iter().map(|(v, f, rf, viol)| json!({"vars": rks(v), "fit": rks(f), "refit": rks(rf), "viol": rk(*viol)})).collect();
                        json!({"ev": "Done", "res": "ok", "solver": name, "reported": 0, "recomputed": 0, "vars": [], "front": fr})
                    }
                    Raw::Panic(why) => {
                        panics += 1;
                        json!({"ev": "Done", "res": "panic", "solver": name, "why": why, "reported": 0, "recomputed": 0, "vars": [], "front": []})
                    }
                };
                tr.emit(ev)?;
            }
        }
    }
    eprintln!("solver: {pairs} pairs, {} events, {panics} panicking runs", tr.events);
    tr.finish()
}

fn main() {
    harness_main(run);
}
