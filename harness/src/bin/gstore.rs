//! C06: GraphStore single-version mutators and every read view the property names (src/graph/store.rs)
use samyama::graph::{EdgeId, EdgeType, GraphStore, Label, NodeId, PropertyValue};
use serde_json::{json, Map, Value};
use verif_harness::*;

const LABELS: [&str; 2] = ["A", "B"];
const TYPES: [&str; 2] = ["T", "U"];

fn val_of(tok: &str) -> PropertyValue {
    match tok {
        "v1" => PropertyValue::Integer(1),
        "v2" => PropertyValue::Integer(2),
        other => PropertyValue::String(other.to_string()),
    }
}
fn tok_of(v: Option<&PropertyValue>) -> Value {
    match v {
        None | Some(PropertyValue::Null) => json!("none"),
        Some(PropertyValue::Integer(1)) => json!("v1"),
        Some(PropertyValue::Integer(2)) => json!("v2"),
        Some(other) => json!(format!("{other:?}")),
    }
}
fn sorted_u64(mut v: Vec<u64>) -> Vec<u64> {
    v.sort();
    v
}

fn observe(st: &GraphStore, maxn: u64, maxe: u64) -> Value {
    let mut node = Vec::new();
    let mut out_e = Vec::new();
    let mut in_e = Vec::new();
    let mut out_n = Vec::new();
    let mut in_n = Vec::new();
    let mut out_nt = Vec::new();
    let mut in_nt = Vec::new();
    let mut deg_out = Vec::new();
    let mut deg_in = Vec::new();
    let mut between = Vec::new();
    let mut first = Vec::new();
    for n in 1..=maxn {
        let id = NodeId::new(n);
        let nd = st.get_node(id);
        let mut labels: Vec<String> = nd.map(|x| x.labels.iter().map(|l| l.as_str().to_string()).collect()).unwrap_or_default();
        labels.sort();
        let full = st.node_properties_full(id);
        node.push(json!({
            "live": nd.is_some(), "has": st.has_node(id), "labels": labels,
            "p": tok_of(nd.and_then(|x| x.get_property("p"))),
            "full": tok_of(full.get("p")),
        }));
        out_e.push(sorted_u64(st.get_outgoing_edges(id).iter().map(|e| e.id.as_u64()).collect()));
        in_e.push(sorted_u64(st.get_incoming_edges(id).iter().map(|e| e.id.as_u64()).collect()));
        let mut o: Vec<(u64, u64)> = Vec::new();
        st.for_each_outgoing_neighbor(id, None, |nbr, e| o.push((nbr.as_u64(), e.as_u64())));
        o.sort();
        out_n.push(o.iter().map(|(a, b)| json!([a, b])).collect::<Vec<_>>());
        let mut i: Vec<(u64, u64)> = Vec::new();
        st.for_each_incoming_neighbor(id, None, |nbr, e| i.push((nbr.as_u64(), e.as_u64())));
        i.sort();
        in_n.push(i.iter().map(|(a, b)| json!([a, b])).collect::<Vec<_>>());
        let (mut ont, mut int, mut dgo, mut dgi) = (Map::new(), Map::new(), Map::new(), Map::new());
        for t in TYPES {
            let et = EdgeType::new(t);
            let mut v = Vec::new();
            st.for_each_outgoing_neighbor_of_type(id, &et, |m| v.push(m.as_u64()));
            ont.insert(t.into(), json!(sorted_u64(v)));
            let mut v = Vec::new();
            st.for_each_incoming_neighbor_of_type(id, &et, |m| v.push(m.as_u64()));
            int.insert(t.into(), json!(sorted_u64(v)));
            dgo.insert(t.into(), json!(st.outgoing_degree_for_type(id, &et)));
            dgi.insert(t.into(), json!(st.incoming_degree_for_type(id, &et)));
        }
        out_nt.push(Value::Object(ont));
        in_nt.push(Value::Object(int));
        deg_out.push(Value::Object(dgo));
        deg_in.push(Value::Object(dgi));
        let mut brow = Vec::new();
        let mut frow = Vec::new();
        for d in 1..=maxn {
            let did = NodeId::new(d);
            let (mut b, mut f) = (Map::new(), Map::new());
            b.insert("any".into(), json!(sorted_u64(st.edges_between(id, did, None).iter().map(|e| e.as_u64()).collect())));
            f.insert("any".into(), json!(st.edge_between(id, did, None).map(|e| e.as_u64()).unwrap_or(0)));
            for t in TYPES {
                let et = EdgeType::new(t);
                b.insert(t.into(), json!(sorted_u64(st.edges_between(id, did, Some(&et)).iter().map(|e| e.as_u64()).collect())));
                f.insert(t.into(), json!(st.edge_between(id, did, Some(&et)).map(|e| e.as_u64()).unwrap_or(0)));
            }
            brow.push(Value::Object(b));
            frow.push(Value::Object(f));
        }
        between.push(brow);
        first.push(frow);
    }
    let mut edge = Vec::new();
    for e in 1..=maxe {
        let id = EdgeId::new(e);
        match st.get_edge(id) {
            Some(x) => edge.push(json!({"live": true, "has": st.has_edge(id), "s": x.source.as_u64(), "d": x.target.as_u64(),
                "t": x.edge_type.as_str(), "p": tok_of(x.properties.get("p"))})),
            None => edge.push(json!({"live": false, "has": st.has_edge(id), "s": 0, "d": 0, "t": "UNSET", "p": "none"})),
        }
    }
    let (mut by_label, mut by_type) = (Map::new(), Map::new());
    for l in LABELS {
        by_label.insert(l.into(), json!(sorted_u64(st.get_nodes_by_label(&Label::new(l)).iter().map(|n| n.id.as_u64()).collect())));
    }
    for t in TYPES {
        by_type.insert(t.into(), json!(sorted_u64(st.get_edges_by_type(&EdgeType::new(t)).iter().map(|e| e.id.as_u64()).collect())));
    }
    json!({
        "node": node, "edge": edge, "outE": out_e, "inE": in_e, "outN": out_n, "inN": in_n,
        "outNT": out_nt, "inNT": in_nt, "degOut": deg_out, "degIn": deg_in, "between": between, "first": first,
        "byLabel": by_label, "byType": by_type,
        "nodeCount": st.node_count(), "edgeCount": st.edge_count(),
        "allNodes": sorted_u64(st.all_nodes().iter().map(|n| n.id.as_u64()).collect()),
        "allEdges": sorted_u64(st.all_edges().iter().map(|e| e.id.as_u64()).collect()),
    })
}

fn run(scripts: &str, trace: &str, opts: &Opts) -> Res<()> {
    let maxn = opts.get_u64("maxn", 4);
    let maxe = opts.get_u64("maxe", 4);
    let scripts = read_scripts(scripts)?;
    let mut tr = Trace::create(trace)?;
    for s in &scripts {
        tr.reset(&s.sid)?;
        let mut st = GraphStore::new();
        let mut hn: Vec<u64> = Vec::new(); // node handle -> real id
        let mut he: Vec<u64> = Vec::new();
        for step in &s.steps {
            let op = gs(step, "op");
            let mut x = Map::new();
            let nid = |k: &str, hn: &Vec<u64>| hn[gi(step, k) as usize - 1];
            let r = catch(|| -> Result<(), String> {
                match op {
                    "CreateNode" => {
                        let labels: Vec<Label> = step["labels"].as_array().unwrap().iter().map(|l| Label::new(l.as_str().unwrap())).collect();
                        let id = st.create_node_with_labels(labels).as_u64();
                        hn.push(id);
                        x.insert("id".into(), json!(id));
                    }
                    "CreateNodeStub" => {
                        let id = st.create_node_stub(Label::new(gs(step, "label"))).as_u64();
                        hn.push(id);
                        x.insert("id".into(), json!(id));
                    }
                    "CreateEdge" | "CreateEdgeStub" => {
                        let (s_, d_) = (nid("s", &hn), nid("d", &hn));
                        x.insert("s".into(), json!(s_));
                        x.insert("d".into(), json!(d_));
                        let res = if op == "CreateEdge" {
                            st.create_edge(NodeId::new(s_), NodeId::new(d_), gs(step, "t"))
                        } else {
                            st.create_edge_stub(NodeId::new(s_), NodeId::new(d_), gs(step, "t"))
                        };
                        match res {
                            Ok(e) => {
                                he.push(e.as_u64());
                                x.insert("id".into(), json!(e.as_u64()));
                                x.insert("res".into(), json!("ok"));
                            }
                            Err(_) => {
                                x.insert("id".into(), json!(0));
                                x.insert("res".into(), json!("err"));
                            }
                        }
                    }
                    "CreateEdgeP" => {
                        let (s_, d_) = (nid("s", &hn), nid("d", &hn));
                        x.insert("s".into(), json!(s_));
                        x.insert("d".into(), json!(d_));
                        let mut m = samyama::graph::PropertyMap::new();
                        m.insert("p".to_string(), val_of(gs(step, "v")));
                        match st.create_edge_with_properties(NodeId::new(s_), NodeId::new(d_), gs(step, "t"), m) {
                            Ok(e) => {
                                he.push(e.as_u64());
                                x.insert("id".into(), json!(e.as_u64()));
                                x.insert("res".into(), json!("ok"));
                            }
                            Err(_) => {
                                x.insert("id".into(), json!(0));
                                x.insert("res".into(), json!("err"));
                            }
                        }
                    }
                    "SetColumnProp" => {
                        let n = nid("n", &hn);
                        x.insert("n".into(), json!(n));
                        st.set_column_property(NodeId::new(n), "p", val_of(gs(step, "v")));
                    }
                    "RemoveEdgeProp" => {
                        let e = he[gi(step, "e") as usize - 1];
                        x.insert("e".into(), json!(e));
                        st.remove_edge_property(EdgeId::new(e), "p");
                    }
                    "Clear" => st.clear(),
                    "DeleteEdge" => {
                        let e = he[gi(step, "e") as usize - 1];
                        x.insert("e".into(), json!(e));
                        x.insert("res".into(), json!(if st.delete_edge(EdgeId::new(e)).is_ok() { "ok" } else { "err" }));
                    }
                    "DeleteNode" => {
                        let n = nid("n", &hn);
                        x.insert("n".into(), json!(n));
                        x.insert("res".into(), json!(if st.delete_node("default", NodeId::new(n)).is_ok() { "ok" } else { "err" }));
                    }
                    "Compact" => st.compact_adjacency(),
                    "FinishBulkLoad" => st.finish_bulk_load(),
                    "SetNodeProp" => {
                        let n = nid("n", &hn);
                        x.insert("n".into(), json!(n));
                        let r = st.set_node_property("default", NodeId::new(n), "p", val_of(gs(step, "v")));
                        x.insert("res".into(), json!(if r.is_ok() { "ok" } else { "err" }));
                    }
                    "RemoveNodeProp" => {
                        let n = nid("n", &hn);
                        x.insert("n".into(), json!(n));
                        st.remove_node_property(NodeId::new(n), "p");
                    }
                    "AddLabel" => {
                        let n = nid("n", &hn);
                        x.insert("n".into(), json!(n));
                        let r = st.add_label_to_node("default", NodeId::new(n), Label::new(gs(step, "label")));
                        x.insert("res".into(), json!(if r.is_ok() { "ok" } else { "err" }));
                    }
                    "RemoveLabel" => {
                        let n = nid("n", &hn);
                        x.insert("n".into(), json!(n));
                        let r = st.remove_label_from_node(NodeId::new(n), &Label::new(gs(step, "label")));
                        x.insert("res".into(), json!(if r.is_ok() { "ok" } else { "err" }));
                    }
                    "SetEdgeProp" => {
                        let e = he[gi(step, "e") as usize - 1];
                        x.insert("e".into(), json!(e));
                        let r = st.set_edge_property(EdgeId::new(e), "p", val_of(gs(step, "v")));
                        x.insert("res".into(), json!(if r.is_ok() { "ok" } else { "err" }));
                    }
                    _ => return Err(format!("unknown op {op}")),
                }
                Ok(())
            });
            match r {
                Ok(Ok(())) => {}
                Ok(Err(e)) => return Err(e.into()),
                Err(p) => {
                    x.insert("res".into(), json!("panic"));
                    x.insert("panic".into(), json!(p));
                }
            }
            let obs = catch(|| observe(&st, maxn, maxe)).unwrap_or_else(|p| json!({"panic": p}));
            x.insert("obs".into(), obs);
            tr.emit(event_from(step, Value::Object(x)))?;
        }
    }
    tr.finish()
}

fn main() {
    std::panic::set_hook(Box::new(|_| {}));
    harness_main(run);
}
