//! C14: durable snapshot persistence (src/snapshot/persist.rs, src/http/handler.rs).
//!
//! Every script runs against a fresh data directory.  `Import k` sends snapshot k (one node
//! with property k) to the REAL `POST /api/snapshot/import` route on its own thread; the hook
//! callback (crate::verif::point) parks that thread at every point of persist_snapshot, so
//! the directory is really in the intermediate state when the harness looks at it, crashes
//! the request (unwinding = process crash: nothing after this point is executed), or rewrites
//! the directory to a power-loss state chosen by TLC.  `Restart` calls the real
//! restore_persisted_snapshots on the directory into a fresh store.
//!
//! Observations per event: the listing of <data>/snapshots (for each of the three names:
//! absent / empty / full + the graph the bytes hold, decoded with the real import / torn) and
//! the files that were really fsynced during the step (this binary defines `fsync` and
//! `fdatasync`, which take precedence over libc's at link time, record the path of the
//! descriptor and forward to the system call).
use samyama::graph::{GraphStore, PropertyValue};
use samyama::http::HttpServer;
use serde_json::{json, Value};
use std::collections::HashMap;
use std::path::{Path, PathBuf};
use std::sync::mpsc::{channel, Receiver, Sender};
use std::sync::{Arc, Mutex};
use tokio::sync::RwLock;
use tower::ServiceExt;
use verif_harness::*;

// ------------------------------------------------------------------ fsync interposer
static SYNCED: Mutex<Vec<String>> = Mutex::new(Vec::new());

fn note_sync(fd: libc::c_int) {
    if let Ok(p) = std::fs::read_link(format!("/proc/self/fd/{fd}")) {
        let s = p.to_string_lossy().to_string();
        if s.contains("/snapshots") {
            let base = p.file_name().map(|x| x.to_string_lossy().to_string()).unwrap_or_default();
            let name = match base.trim_end_matches(" (deleted)") {
                "default.sgsnap" => "snap".to_string(),
                "default.sgsnap.tmp" => "tmp".to_string(),
                "default.sgsnap.committed" => "mark".to_string(),
                "snapshots" => "dir".to_string(),
                other => other.to_string(),
            };
            if let Ok(mut g) = SYNCED.lock() {
                g.push(name);
            }
        }
    }
}

#[no_mangle]
pub unsafe extern "C" fn fsync(fd: libc::c_int) -> libc::c_int {
    note_sync(fd);
    libc::syscall(libc::SYS_fsync, fd) as libc::c_int
}

#[no_mangle]
pub unsafe extern "C" fn fdatasync(fd: libc::c_int) -> libc::c_int {
    note_sync(fd);
    libc::syscall(libc::SYS_fdatasync, fd) as libc::c_int
}

fn take_synced() -> Vec<String> {
    let mut v = std::mem::take(&mut *SYNCED.lock().unwrap());
    v.sort();
    v.dedup();
    v
}

// ------------------------------------------------------------------ parking the request thread
enum Cmd {
    Go,
    Die,
}
enum Evt {
    Point(String),
    Done(u16),
}
thread_local! {
    static PARK: std::cell::RefCell<Option<(Sender<Evt>, Receiver<Cmd>)>> = const { std::cell::RefCell::new(None) };
}
const CRASH: &str = "verif: crash injected";

fn hook(name: &str) {
    let Some(step) = name.strip_prefix("persist_snapshot/") else { return };
    let die = PARK.with(|p| {
        let p = p.borrow();
        let Some((tx, rx)) = p.as_ref() else { return false };
        if tx.send(Evt::Point(step.to_string())).is_err() {
            return true;
        }
        !matches!(rx.recv(), Ok(Cmd::Go))
    });
    if die {
        panic!("{}", CRASH);
    }
}

struct Flight {
    tx: Sender<Cmd>,
    rx: Receiver<Evt>,
    th: std::thread::JoinHandle<()>,
}

struct Server {
    store: Arc<RwLock<GraphStore>>,
    router: axum::Router,
}
impl Server {
    fn new(store: GraphStore, data: &Path) -> Self {
        let store = Arc::new(RwLock::new(store));
        let router = HttpServer::new(Arc::clone(&store), 0).with_data_path(Some(data.to_string_lossy().to_string())).router();
        Server { store, router }
    }
    /// start POST /api/snapshot/import on its own thread; it parks at the first hook point
    fn import(&self, bytes: Vec<u8>) -> Flight {
        let (etx, erx) = channel::<Evt>();
        let (ctx, crx) = channel::<Cmd>();
        let router = self.router.clone();
        let th = std::thread::spawn(move || {
            let etx2 = etx.clone();
            PARK.with(|p| *p.borrow_mut() = Some((etx2, crx)));
            let b = "vfboundary7f3a";
            let mut body = Vec::new();
            body.extend_from_slice(
                format!("--{b}\r\nContent-Disposition: form-data; name=\"file\"; filename=\"s.sgsnap\"\r\nContent-Type: application/octet-stream\r\n\r\n").as_bytes(),
            );
            body.extend_from_slice(&bytes);
            body.extend_from_slice(format!("\r\n--{b}--\r\n").as_bytes());
            let req = axum::http::Request::builder()
                .method("POST")
                .uri("/api/snapshot/import")
                .header("content-type", format!("multipart/form-data; boundary={b}"))
                .body(axum::body::Body::from(body))
                .unwrap();
            let status = rt().block_on(async move { router.oneshot(req).await.map(|r| r.status().as_u16()).unwrap_or(0) });
            let _ = etx.send(Evt::Done(status));
        });
        Flight { tx: ctx, rx: erx, th }
    }
}

// ------------------------------------------------------------------ abstraction of file contents
fn ids(store: &GraphStore) -> Vec<i64> {
    let mut v = Vec::new();
    for n in store.all_nodes() {
        let pv = match n.get_property("k") {
            Some(p) => p.clone(),
            None => store.node_columns.get_property(n.id.as_u64() as usize, "k"),
        };
        match pv {
            PropertyValue::Integer(i) => v.push(i),
            _ => v.push(-1), // a node that is not one of ours: visible to the specification as graph element -1
        }
    }
    v.sort();
    v
}

fn snapshot_of(g: &[i64]) -> Vec<u8> {
    let mut s = GraphStore::new();
    for k in g {
        let id = s.create_node("N");
        s.get_node_mut(id).unwrap().set_property("k", PropertyValue::Integer(*k));
    }
    let mut buf = Vec::new();
    samyama::snapshot::export_tenant(&s, &mut buf).expect("export");
    buf
}

struct Fs {
    snapdir: PathBuf,
    cache: HashMap<Vec<u8>, (String, Vec<i64>)>,
    bytes_of: HashMap<Vec<i64>, Vec<u8>>,
}
const FILES: [(&str, &str); 3] = [("snap", "default.sgsnap"), ("tmp", "default.sgsnap.tmp"), ("mark", "default.sgsnap.committed")];
impl Fs {
    fn decode(&mut self, bytes: &[u8]) -> (String, Vec<i64>) {
        if bytes.is_empty() {
            return ("empty".into(), vec![]);
        }
        if let Some(r) = self.cache.get(bytes) {
            return r.clone();
        }
        let mut s = GraphStore::new();
        let r = match catch(|| samyama::snapshot::import_tenant(&mut s, bytes).is_ok()) {
            Ok(true) => {
                let g = ids(&s);
                self.bytes_of.entry(g.clone()).or_insert_with(|| bytes.to_vec());
                ("full".to_string(), g)
            }
            _ => ("torn".to_string(), vec![]),
        };
        self.cache.insert(bytes.to_vec(), r.clone());
        r
    }
    fn listing(&mut self) -> Value {
        let mut m = serde_json::Map::new();
        for (n, f) in FILES {
            let p = self.snapdir.join(f);
            let e = match std::fs::read(&p) {
                Ok(b) => {
                    let (st, g) = self.decode(&b);
                    json!({"st": st, "g": g})
                }
                Err(_) => json!({"st": "absent", "g": []}),
            };
            m.insert(n.to_string(), e);
        }
        Value::Object(m)
    }
    /// rewrite the directory to the durable state the script prescribes
    fn materialise(&mut self, want: &Value) -> Res<()> {
        std::fs::create_dir_all(&self.snapdir)?;
        for (n, f) in FILES {
            let p = self.snapdir.join(f);
            let st = want[n]["st"].as_str().unwrap_or("absent");
            let g: Vec<i64> = want[n]["g"].as_array().map(|a| a.iter().filter_map(|x| x.as_i64()).collect()).unwrap_or_default();
            match st {
                "absent" => {
                    let _ = std::fs::remove_file(&p);
                }
                "empty" => std::fs::write(&p, b"")?,
                "full" | "torn" => {
                    let full = match self.bytes_of.get(&g) {
                        Some(b) => b.clone(),
                        None => snapshot_of(&g),
                    };
                    if st == "full" {
                        std::fs::write(&p, &full)?;
                    } else {
                        std::fs::write(&p, &full[..std::cmp::max(1, full.len() / 2)])?;
                    }
                }
                other => return Err(format!("unknown file state {other}").into()),
            }
        }
        Ok(())
    }
}


// ------------------------------------------------------------------ whole-server mode (real binary, option server=<path>)
struct Proc {
    child: std::process::Child,
    resp: u16,
    http: u16,
}
impl Drop for Proc {
    fn drop(&mut self) {
        let _ = self.child.kill();
        let _ = self.child.wait();
    }
}
fn free_port() -> u16 {
    std::net::TcpListener::bind("127.0.0.1:0").and_then(|l| l.local_addr()).map(|a| a.port()).unwrap_or(0)
}
fn http(port: u16, method: &str, path: &str, ctype: &str, body: &[u8]) -> Option<(u16, String)> {
    use std::io::{Read, Write};
    let mut c = std::net::TcpStream::connect(("127.0.0.1", port)).ok()?;
    c.set_read_timeout(Some(std::time::Duration::from_secs(30))).ok()?;
    let head = format!("{method} {path} HTTP/1.1\r\nHost: 127.0.0.1\r\nConnection: close\r\nContent-Type: {ctype}\r\nContent-Length: {}\r\n\r\n", body.len());
    c.write_all(head.as_bytes()).ok()?;
    c.write_all(body).ok()?;
    let mut out = Vec::new();
    let _ = c.read_to_end(&mut out);
    let text = String::from_utf8_lossy(&out).to_string();
    let status: u16 = text.split_whitespace().nth(1)?.parse().ok()?;
    let body = text.split_once("\r\n\r\n").map(|x| x.1.to_string()).unwrap_or_default();
    Some((status, body))
}
fn resp(port: u16, args: &[&str]) -> Option<String> {
    use std::io::{Read, Write};
    let mut c = std::net::TcpStream::connect(("127.0.0.1", port)).ok()?;
    c.set_read_timeout(Some(std::time::Duration::from_secs(30))).ok()?;
    let mut m = format!("*{}\r\n", args.len());
    for a in args {
        m.push_str(&format!("${}\r\n{}\r\n", a.len(), a));
    }
    c.write_all(m.as_bytes()).ok()?;
    let mut buf = [0u8; 65536];
    let n = c.read(&mut buf).ok()?;
    Some(String::from_utf8_lossy(&buf[..n]).to_string())
}
fn start_server(bin: &str, data: &Path) -> Option<Proc> {
    let (resp_port, http_port) = (free_port(), free_port());
    let child = std::process::Command::new(bin)
        .args(["--data-path", &data.to_string_lossy(), "--port", &resp_port.to_string(), "--http-port", &http_port.to_string()])
        .current_dir(data)
        .stdout(std::process::Stdio::null())
        .stderr(std::process::Stdio::null())
        .spawn()
        .ok()?;
    let p = Proc { child, resp: resp_port, http: http_port };
    for _ in 0..600 {
        if let Some((200, _)) = http(p.http, "GET", "/api/status", "text/plain", b"") {
            return Some(p);
        }
        std::thread::sleep(std::time::Duration::from_millis(100));
    }
    None
}
/// the k of every node the running server returns for MATCH (n) RETURN n.k (a node without k shows as -1)
fn server_graph(p: &Proc) -> Vec<i64> {
    let mut v = Vec::new();
    if let Some((200, body)) = http(p.http, "POST", "/api/query", "application/json", br#"{"query":"MATCH (n) RETURN n.k"}"#) {
        if let Ok(j) = serde_json::from_str::<Value>(&body) {
            for rec in j["records"].as_array().cloned().unwrap_or_default() {
                fn first_int(x: &Value) -> Option<i64> {
                    match x {
                        Value::Number(n) => n.as_i64(),
                        Value::Array(a) => a.iter().find_map(first_int),
                        Value::Object(o) => o.values().find_map(first_int),
                        _ => None,
                    }
                }
                v.push(first_int(&rec).unwrap_or(-1));
            }
        }
    }
    v.sort();
    v
}

fn run_boot(tr: &mut Trace, s: &Script, bin: &str) -> Res<()> {
    tr.reset(&s.sid)?;
    let tmp = tempfile::tempdir()?;
    let data = tmp.path().to_path_buf();
    let mut fs = Fs { snapdir: data.join("snapshots"), cache: HashMap::new(), bytes_of: HashMap::new() };
    let mut srv = start_server(bin, &data);
    if srv.is_none() {
        return Err("the server binary did not come up".into());
    }
    for step in &s.steps {
        match gs(step, "op") {
            "BootImport" => {
                let Some(p) = srv.as_ref() else { continue };
                let k = gi(step, "k");
                let b = "vfboundary7f3a";
                let mut body = format!("--{b}\r\nContent-Disposition: form-data; name=\"file\"; filename=\"s.sgsnap\"\r\nContent-Type: application/octet-stream\r\n\r\n").into_bytes();
                body.extend_from_slice(&snapshot_of(&[k]));
                body.extend_from_slice(format!("\r\n--{b}--\r\n").as_bytes());
                let st = http(p.http, "POST", "/api/snapshot/import", &format!("multipart/form-data; boundary={b}"), &body).map(|x| x.0).unwrap_or(0);
                tr.emit(event_from(step, json!({"status": st, "obs": {"dir": fs.listing(), "g": server_graph(p)}})))?;
            }
            "BootWrite" => {
                let Some(p) = srv.as_ref() else { continue };
                let r = resp(p.resp, &["GRAPH.QUERY", "default", "CREATE (n:W {k: 0}) RETURN n"]).unwrap_or_default();
                let res = if r.starts_with('-') || r.is_empty() { "err" } else { "ok" };
                tr.emit(event_from(step, json!({"res": res, "obs": {"dir": fs.listing(), "g": server_graph(p)}})))?;
            }
            "BootKill" => {
                if srv.is_none() {
                    continue;
                }
                std::thread::sleep(std::time::Duration::from_millis(300)); // let the background indexer drain
                srv = None; // SIGKILL + wait
                tr.emit(event_from(step, json!({"obs": {"dir": fs.listing()}})))?;
            }
            "BootRestart" => {
                if srv.is_some() {
                    continue;
                }
                srv = start_server(bin, &data);
                let (res, g) = match srv.as_ref() {
                    Some(p) => ("up", server_graph(p)),
                    None => ("down", vec![]),
                };
                tr.emit(event_from(step, json!({"res": res, "obs": {"dir": fs.listing(), "g": g}})))?;
            }
            other => return Err(format!("unknown op {other}").into()),
        }
    }
    Ok(())
}

fn run(scripts: &str, trace: &str, opts: &Opts) -> Res<()> {
    let scripts = read_scripts(scripts)?;
    let mut tr = Trace::create(trace)?;
    let default_hook = std::panic::take_hook();
    std::panic::set_hook(Box::new(move |info| {
        let msg = info.payload().downcast_ref::<String>().map(|s| s.as_str()).or_else(|| info.payload().downcast_ref::<&str>().copied());
        if msg != Some(CRASH) {
            default_hook(info);
        }
    }));
    samyama::verif::install(Box::new(hook));
    let mut snaps: HashMap<i64, Vec<u8>> = HashMap::new();
    for s in &scripts {
        if s.steps.first().map(|x| gs(x, "op").starts_with("Boot")) == Some(true) {
            run_boot(&mut tr, s, &opts.get_str("server", ""))?;
            continue;
        }
        tr.reset(&s.sid)?;
        let tmp = tempfile::tempdir()?;
        let data = tmp.path().to_path_buf();
        let mut fs = Fs { snapdir: data.join("snapshots"), cache: HashMap::new(), bytes_of: HashMap::new() };
        let mut server: Option<Server> = Some(Server::new(GraphStore::new(), &data));
        let mut flight: Option<Flight> = None;
        let mut flight_bad = false; // the request in flight carries an upload that must be refused
        take_synced();
        for step in &s.steps {
            let op = gs(step, "op");
            match op {
                "Import" => {
                    let (Some(sv), None) = (server.as_ref(), flight.as_ref()) else { continue };
                    let k = gi(step, "k");
                    let bytes = snaps.entry(k).or_insert_with(|| snapshot_of(&[k])).clone();
                    let f = sv.import(bytes);
                    let res = match f.rx.recv() {
                        Ok(Evt::Point(p)) => {
                            flight = Some(f);
                            flight_bad = false;
                            p
                        }
                        Ok(Evt::Done(st)) => format!("done:{st}"),
                        Err(_) => "died".to_string(),
                    };
                    tr.emit(event_from(step, json!({"res": res, "obs": {"dir": fs.listing(), "synced": take_synced()}})))?;
                }
                "Reject" => {
                    // an upload the handler must refuse: a snapshot cut short (valid header, broken body) or garbage
                    let (Some(sv), None) = (server.as_ref(), flight.as_ref()) else { continue };
                    let k = gi(step, "k");
                    let bytes = match gs(step, "kind") {
                        "cut" => {
                            let full = snapshot_of(&[k]);
                            full[..full.len() - 6].to_vec() // the whole deflate stream, checksum trailer cut off
                        }
                        _ => b"this is not a snapshot".to_vec(),
                    };
                    let f = sv.import(bytes);
                    match f.rx.recv() {
                        Ok(Evt::Point(_)) => {
                            flight = Some(f);
                            flight_bad = true;
                            tr.emit(event_from(step, json!({"res": "begin", "obs": {"dir": fs.listing(), "synced": take_synced()}})))?;
                        }
                        Ok(Evt::Done(st)) => {
                            let _ = f.th.join();
                            let mem = ids(&sv.store.blocking_read());
                            tr.emit(event_from(step, json!({"res": "refused", "status": st, "obs": {"dir": fs.listing(), "synced": take_synced(), "mem": mem}})))?;
                        }
                        Err(_) => {
                            let _ = f.th.join();
                            server = None;
                            tr.emit(json!({"ev": "Died", "obs": {"dir": fs.listing()}}))?;
                        }
                    }
                }
                "Step" | "Ack" => {
                    let Some(f) = flight.take() else { continue };
                    let _ = f.tx.send(Cmd::Go);
                    match f.rx.recv() {
                        Ok(Evt::Point(p)) => {
                            flight = Some(f);
                            tr.emit(json!({"ev": "Step", "point": p, "obs": {"dir": fs.listing(), "synced": take_synced()}}))?;
                        }
                        Ok(Evt::Done(st)) => {
                            let _ = f.th.join();
                            let mem = ids(&server.as_ref().unwrap().store.blocking_read());
                            let ev = if flight_bad { "Refused" } else { "Ack" };
                            flight_bad = false;
                            tr.emit(json!({"ev": ev, "status": st, "obs": {"dir": fs.listing(), "synced": take_synced(), "mem": mem}}))?;
                        }
                        Err(_) => {
                            let _ = f.th.join();
                            server = None;
                            tr.emit(json!({"ev": "Died", "obs": {"dir": fs.listing()}}))?;
                        }
                    }
                }
                "Crash" | "PowerLoss" => {
                    if server.is_none() {
                        continue;
                    }
                    if let Some(f) = flight.take() {
                        let _ = f.tx.send(Cmd::Die);
                        let _ = f.th.join();
                    }
                    flight_bad = false;
                    server = None; // the process is gone: the live store with it
                    if op == "PowerLoss" {
                        fs.materialise(&step["dir"])?;
                    }
                    take_synced();
                    tr.emit(event_from(step, json!({"obs": {"dir": fs.listing()}})))?;
                }
                "Restart" => {
                    if server.is_some() {
                        continue;
                    }
                    let mut store = GraphStore::new();
                    let dp = data.to_string_lossy().to_string();
                    let res = match catch(|| samyama::snapshot::persist::restore_persisted_snapshots(&dp, &mut store).map_err(|e| e.to_string())) {
                        Ok(Ok(Some(_))) => "some",
                        Ok(Ok(None)) => "none",
                        Ok(Err(_)) => "err",
                        Err(_) => "panic",
                    };
                    let g = ids(&store);
                    server = Some(Server::new(store, &data));
                    take_synced();
                    tr.emit(event_from(step, json!({"res": res, "obs": {"dir": fs.listing(), "g": g}})))?;
                }
                _ => return Err(format!("unknown op {op}").into()),
            }
        }
        if let Some(f) = flight.take() {
            let _ = f.tx.send(Cmd::Die);
            let _ = f.th.join();
        }
    }
    println!("{} scripts, {} events", scripts.len(), tr.events);
    tr.finish()
}

fn main() {
    harness_main(run);
}
