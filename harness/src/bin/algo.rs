//! C26 / C27: graph algorithms (crates/samyama-graph-algorithms) and the CALL algo.* procedures against
//! their brute-force definitions (spec/Algo.tla, validated by spec/Algo_Trace.tla).
//!
//! A script is one directed multigraph: `AddNode{labels}` steps then `AddEdge{s,d,w,t}` steps (nodes are
//! 1..n in creation order).  Every step is executed on a real `GraphStore` (relationship properties
//! w = Integer(w), w2 = Float(4-w)); after the last step EVERY algorithm is run
//!   * directly on a `GraphView` built with `from_adjacency_list` (adjacency lists in script order), and
//!   * through the query engine as `CALL algo.*` for the label / type / weight projections of `proj=`,
//! and every result is logged.  Nothing is judged here: TLC recomputes each definition from the logged
//! relationship list.  Floats are logged as integers: integral values as such plus an `exact` flag,
//! scores / coefficients as round(x * 10^6).
//!
//! rep=1|2 additionally runs PageRank / CDLP / triangle count / LCC on k disjoint copies of the graph
//!         (k = ceil(1000/n): the rayon code paths, n >= 1000; rep=2: also k = 2, sequential control) inside rayon
//!         pools of 1 and 8 threads and logs, per base node, the DISTINCT values seen over the copies
//!         (PageRank scaled by k; CDLP labels relative to the copy's first id).
//! mode=random   ignores the scripts' content: generates `count` seeded random graphs (`minn..maxn` nodes)
//!         and logs certificates TLC can check in polynomial time (see Algo_Trace.tla, weaker than the
//!         definitions) plus the sequential-vs-parallel relation on copies crossing the threshold.
use rand::rngs::StdRng;
use rand::{Rng, SeedableRng};
use samyama::graph::{GraphStore, Label, NodeId, PropertyMap, PropertyValue};
use samyama::query::executor::record::Value as QV;
use samyama::query::{QueryEngine, RecordBatch};
use samyama_graph_algorithms::{
    bfs, bfs_all_shortest_paths, cdlp, count_triangles, dijkstra, edmonds_karp, local_clustering_coefficient_directed,
    page_rank, prim_mst, strongly_connected_components, weakly_connected_components, CdlpConfig, GraphView, PageRankConfig,
};
use serde_json::{json, Value};
use std::collections::{BTreeMap, BTreeSet, HashMap};
use verif_harness::*;

const MEGA: f64 = 1_000_000.0;

#[derive(Clone)]
struct Edge {
    s: u64,
    d: u64,
    w: i64,
    t: String,
}
#[derive(Clone, Default)]
struct Graph {
    n: u64,
    edges: Vec<Edge>,
}

/// integral float -> (value, exact)
fn int_of(x: f64) -> (i64, bool) {
    if x.is_finite() && x.fract() == 0.0 && x.abs() < 1e9 {
        (x as i64, true)
    } else {
        (if x.is_finite() { x.floor().max(-1e9).min(1e9) as i64 } else { -1 }, false)
    }
}
fn scaled(x: f64) -> i64 {
    if x.is_finite() && x.abs() < 2000.0 {
        (x * MEGA).round() as i64
    } else {
        -1
    }
}

/// GraphView over nodes `order` (index order), relationships in the given order; ids c*n+v for copy c
fn view_of(g: &Graph, order: &[u64], wp: &str, copies: u64) -> GraphView {
    let n = g.n as usize;
    let total = n * copies as usize;
    let mut index_to_node = Vec::with_capacity(total);
    for c in 0..copies {
        for &v in order {
            index_to_node.push(c * g.n + v);
        }
    }
    let node_to_index: HashMap<u64, usize> = index_to_node.iter().enumerate().map(|(i, &v)| (v, i)).collect();
    let mut out = vec![Vec::new(); total];
    let mut inc = vec![Vec::new(); total];
    let mut ws = vec![Vec::new(); total];
    for c in 0..copies {
        for e in &g.edges {
            let si = node_to_index[&(c * g.n + e.s)];
            let di = node_to_index[&(c * g.n + e.d)];
            out[si].push(di);
            inc[di].push(si);
            ws[si].push(match wp {
                "w" => e.w as f64,
                "w2" => (4 - e.w) as f64,
                _ => 1.0,
            });
        }
    }
    GraphView::from_adjacency_list(total, index_to_node, node_to_index, out, inc, if wp.is_empty() { None } else { Some(ws) })
}

// ------------------------------------------------------------------------------------------------ crate-level runs
fn comp_run(via: &str, kind: &str, label: &str, ty: &str, nc: &HashMap<u64, usize>, groups: Option<&HashMap<usize, Vec<u64>>>) -> Value {
    let m: BTreeMap<u64, usize> = nc.iter().map(|(k, v)| (*k, *v)).collect();
    let mut gl: Vec<Vec<u64>> = groups
        .map(|g| {
            g.values()
                .map(|v| {
                    let mut v = v.clone();
                    v.sort();
                    v
                })
                .collect()
        })
        .unwrap_or_default();
    gl.sort();
    json!({"via": via, "kind": kind, "label": label, "type": ty, "nodes": m.keys().collect::<Vec<_>>(),
           "comp": m.values().collect::<Vec<_>>(), "hasGroups": groups.is_some(), "groups": gl})
}

fn path_rec(s: u64, t: u64, r: Option<(f64, Vec<u64>)>) -> Value {
    match r {
        None => json!({"s": s, "t": t, "found": false, "cost": 0, "exact": true, "path": []}),
        Some((c, p)) => {
            let (ci, ex) = int_of(c);
            json!({"s": s, "t": t, "found": true, "cost": ci, "exact": ex, "path": p})
        }
    }
}

struct PrCfg {
    dn: i64,
    dd: i64,
    iters: usize,
    tol_d: i64,
    dang: bool,
}
impl PrCfg {
    fn cfg(&self) -> PageRankConfig {
        PageRankConfig {
            damping_factor: self.dn as f64 / self.dd as f64,
            iterations: self.iters,
            tolerance: if self.tol_d == 0 { 0.0 } else { 1.0 / self.tol_d as f64 },
            dangling_redistribution: self.dang,
        }
    }
    fn js(&self) -> serde_json::Map<String, Value> {
        json!({"dn": self.dn, "dd": self.dd, "iters": self.iters, "tolD": self.tol_d, "dang": self.dang}).as_object().unwrap().clone()
    }
}
fn pr_cfgs() -> Vec<PrCfg> {
    vec![
        PrCfg { dn: 1, dd: 2, iters: 0, tol_d: 0, dang: true },
        PrCfg { dn: 1, dd: 2, iters: 1, tol_d: 0, dang: true },
        PrCfg { dn: 1, dd: 2, iters: 2, tol_d: 0, dang: false },
        PrCfg { dn: 1, dd: 2, iters: 3, tol_d: 0, dang: true },
        PrCfg { dn: 3, dd: 4, iters: 2, tol_d: 0, dang: true },
        PrCfg { dn: 3, dd: 4, iters: 2, tol_d: 0, dang: false },
        PrCfg { dn: 3, dd: 4, iters: 3, tol_d: 10, dang: true },
        PrCfg { dn: 3, dd: 4, iters: 3, tol_d: 10000, dang: true },
        PrCfg { dn: 1, dd: 4, iters: 3, tol_d: 10, dang: false },
    ]
}
fn with(mut base: serde_json::Map<String, Value>, extra: Value) -> Value {
    for (k, v) in extra.as_object().unwrap() {
        base.insert(k.clone(), v.clone());
    }
    Value::Object(base)
}
fn sorted_scores(m: &HashMap<u64, f64>, mul: f64) -> (Vec<u64>, Vec<i64>) {
    let b: BTreeMap<u64, f64> = m.iter().map(|(k, v)| (*k, *v)).collect();
    (b.keys().cloned().collect(), b.values().map(|x| scaled(x * mul)).collect())
}

// ------------------------------------------------------------------------------------------------ CALL helpers
struct Db {
    store: GraphStore,
    engine: QueryEngine,
    id_of: Vec<u64>,           // handle (1-based, index 0 unused) -> real id
    handle: HashMap<u64, u64>, // real id -> handle
}
impl Db {
    fn new() -> Self {
        Db { store: GraphStore::new(), engine: QueryEngine::new(), id_of: vec![u64::MAX], handle: HashMap::new() }
    }
    fn call(&self, q: &str) -> Result<RecordBatch, String> {
        match catch(|| self.engine.execute(q, &self.store).map_err(|e| e.to_string())) {
            Ok(r) => r,
            Err(p) => Err(format!("panic: {p}")),
        }
    }
    fn h(&self, id: u64) -> u64 {
        self.handle.get(&id).cloned().unwrap_or(1_000_000 + id)
    }
}
fn node_of(v: Option<&QV>) -> Option<u64> {
    match v {
        Some(QV::Node(id, _)) | Some(QV::NodeRef(id)) => Some(id.as_u64()),
        _ => None,
    }
}
fn float_of(v: Option<&QV>) -> Option<f64> {
    match v {
        Some(QV::Property(PropertyValue::Float(f))) => Some(*f),
        Some(QV::Property(PropertyValue::Integer(i))) => Some(*i as f64),
        _ => None,
    }
}
fn int_val(v: Option<&QV>) -> Option<i64> {
    match v {
        Some(QV::Property(PropertyValue::Integer(i))) => Some(*i),
        _ => None,
    }
}
fn lit(s: &str) -> String {
    if s.is_empty() {
        "null".to_string()
    } else {
        format!("'{s}'")
    }
}
/// argument list prefix for (label?, type?)
fn lt_args(label: &str, ty: &str) -> String {
    if label.is_empty() && ty.is_empty() {
        String::new()
    } else if ty.is_empty() {
        lit(label)
    } else {
        format!("{}, {}", lit(label), lit(ty))
    }
}
fn join_args(a: String, b: String) -> String {
    if a.is_empty() {
        b
    } else if b.is_empty() {
        a
    } else {
        format!("{a}, {b}")
    }
}
/// rows (node, <col>) -> sorted (handles, values); a row without a node makes the run `bad`
fn node_rows<T: Clone>(db: &Db, b: &RecordBatch, f: impl Fn(&samyama::query::executor::record::Record) -> Option<T>) -> Option<(Vec<u64>, Vec<T>)> {
    let mut rows: Vec<(u64, T)> = Vec::new();
    for r in &b.records {
        let id = node_of(r.get("node"))?;
        rows.push((db.h(id), f(r)?));
    }
    rows.sort_by_key(|x| x.0);
    Some((rows.iter().map(|x| x.0).collect(), rows.iter().map(|x| x.1.clone()).collect()))
}

// ------------------------------------------------------------------------------------------------ replicated runs
fn distinct_per_base(n: u64, copies: u64, f: impl Fn(u64, u64) -> i64) -> Vec<Vec<i64>> {
    (1..=n)
        .map(|v| {
            let s: BTreeSet<i64> = (0..copies).map(|c| f(c, v)).collect();
            s.into_iter().collect()
        })
        .collect()
}

struct Pools {
    p: Vec<(usize, rayon::ThreadPool)>,
}
impl Pools {
    fn new() -> Self {
        Pools { p: [1usize, 8].iter().map(|&t| (t, rayon::ThreadPoolBuilder::new().num_threads(t).build().unwrap())).collect() }
    }
}

/// PageRank / CDLP / triangles / LCC on `copies` disjoint copies, inside each pool
fn rep_runs(g: &Graph, copies: u64, pools: &Pools, pr: &[PrCfg], cd: &[usize], algos: &str, out: &mut Vec<Value>) {
    let want = |k: &str| algos.is_empty() || algos.split(',').any(|x| x == k);
    let order: Vec<u64> = (1..=g.n).collect();
    let view = view_of(g, &order, "", copies);
    let n = g.n;
    for (threads, pool) in &pools.p {
        for c in pr.iter().filter(|_| want("pr")) {
            let r = pool.install(|| page_rank(&view, c.cfg()));
            let vals = distinct_per_base(n, copies, |cp, v| r.get(&(cp * n + v)).map(|x| scaled(x * copies as f64)).unwrap_or(-1));
            out.push(with(c.js(), json!({"via": "rep", "algo": "pr", "copies": copies, "threads": threads, "total": r.len(), "vals": vals})));
        }
        for &k in cd.iter().filter(|_| want("cdlp")) {
            let r = pool.install(|| cdlp(&view, &CdlpConfig { max_iterations: k }));
            let vals = distinct_per_base(n, copies, |cp, v| r.labels.get(&(cp * n + v)).map(|x| *x as i64 - (cp * n) as i64).unwrap_or(-1));
            out.push(json!({"via": "rep", "algo": "cdlp", "copies": copies, "threads": threads, "k": k, "total": r.labels.len(), "vals": vals}));
        }
        if want("tri") {
            let t = pool.install(|| count_triangles(&view));
            out.push(json!({"via": "rep", "algo": "tri", "copies": copies, "threads": threads, "total": t, "vals": []}));
        }
        for directed in [false, true].into_iter().filter(|_| want("lcc")) {
            let r = pool.install(|| local_clustering_coefficient_directed(&view, directed));
            let vals = distinct_per_base(n, copies, |cp, v| r.coefficients.get(&(cp * n + v)).map(|x| scaled(*x)).unwrap_or(-1));
            out.push(json!({"via": "rep", "algo": "lcc", "copies": copies, "threads": threads, "directed": directed, "total": r.coefficients.len(), "vals": vals}));
        }
    }
}

// ------------------------------------------------------------------------------------------------ one script
fn run_graph(tr: &mut Trace, sc: &Script, proj: &str, rep: u64, pools: &Pools, only: &str, repalgos: &str, prmaxit: usize) -> Res<()> {
    let want = |k: &str| only.is_empty() || only.split(',').any(|x| x == k);
    tr.reset(&sc.sid)?;
    let mut db = Db::new();
    let mut g = Graph::default();
    #[allow(unused_assignments)]
    let mut lts: Vec<(String, String)> = Vec::new();
    let mut labels_used: BTreeSet<String> = BTreeSet::new();
    let mut types_used: BTreeSet<String> = BTreeSet::new();
    for step in &sc.steps {
        match gs(step, "op") {
            "AddNode" => {
                let ls: Vec<String> = step["labels"].as_array().unwrap().iter().map(|x| x.as_str().unwrap().to_string()).collect();
                for l in &ls {
                    labels_used.insert(l.clone());
                }
                let id = db.store.create_node_with_labels(ls.iter().map(|l| Label::new(l.as_str()))).as_u64();
                g.n += 1;
                db.id_of.push(id);
                db.handle.insert(id, g.n);
                // real ids must grow with the handles (CDLP's smallest-label rule is compared through the handle map)
                if g.n > 1 && id <= db.id_of[(g.n - 1) as usize] {
                    return Err(format!("node ids are not increasing: {:?}", db.id_of).into());
                }
                tr.emit(event_from(step, json!({"obs": {"handle": g.n, "nodes": db.store.node_count()}})))?;
            }
            "AddEdge" => {
                let (s, d, w) = (gi(step, "s") as u64, gi(step, "d") as u64, gi(step, "w"));
                let t = gs(step, "t").to_string();
                types_used.insert(t.clone());
                let mut pm = PropertyMap::new();
                pm.insert("w".to_string(), PropertyValue::Integer(w));
                pm.insert("w2".to_string(), PropertyValue::Float((4 - w) as f64));
                let r = db.store.create_edge_with_properties(NodeId::new(db.id_of[s as usize]), NodeId::new(db.id_of[d as usize]), t.as_str(), pm);
                g.edges.push(Edge { s, d, w, t });
                tr.emit(event_from(step, json!({"res": if r.is_ok() { "ok" } else { "err" }, "obs": {"edges": db.store.edge_count()}})))?;
            }
            o => return Err(format!("unknown op {o}").into()),
        }
    }
    let n = g.n;
    let ident: Vec<u64> = (1..=n).collect();
    let rev: Vec<u64> = (1..=n).rev().collect();
    let nodes: Vec<u64> = ident.clone();

    // ---------------------------------------------------------------- projections asked through CALL
    // (label, type) pairs for wcc / pageRank / cdlp / lcc
    lts = vec![(String::new(), String::new())];
    if proj == "full" {
        let mut ls: Vec<String> = vec![String::new()];
        ls.extend(labels_used.iter().cloned());
        ls.push("Z".to_string());
        let mut ts: Vec<String> = vec![String::new(), "T".to_string(), "U".to_string()];
        ts.dedup();
        lts.clear();
        for l in &ls {
            for t in &ts {
                lts.push((l.clone(), t.clone()));
            }
        }
    } else {
        lts.push(("N".to_string(), "T".to_string()));
        lts.push((format!("X{n}"), String::new()));
    }
    let wps: Vec<&str> = vec!["", "w", "w2"];

    // ---------------------------------------------------------------- components
    if want("Comp") {
        let mut runs = Vec::new();
        for (order, tag) in [(&ident, "crate"), (&rev, "crate-rev")] {
            let v = view_of(&g, order, "", 1);
            let r = weakly_connected_components(&v);
            runs.push(comp_run(tag, "wcc", "", "", &r.node_component, Some(&r.components)));
            let r = strongly_connected_components(&v);
            runs.push(comp_run(tag, "scc", "", "", &r.node_component, Some(&r.components)));
        }
        for (l, t) in &lts {
            let q = format!("CALL algo.wcc({}) YIELD node, componentId", lt_args(l, t));
            runs.push(call_comp(&db, &q, "wcc", l, t));
        }
        runs.push(call_comp(&db, "CALL algo.scc() YIELD node, componentId", "scc", "", ""));
        tr.emit(json!({"ev": "Comp", "runs": runs}))?;
    }
    // ---------------------------------------------------------------- paths
    if want("Path") {
        let mut runs = Vec::new();
        for wp in &wps {
            let v = view_of(&g, &ident, wp, 1);
            let mut rb = Vec::new();
            let mut rd = Vec::new();
            let mut ra = Vec::new();
            for &s in &nodes {
                for &t in &nodes {
                    rb.push(path_rec(s, t, bfs(&v, s, t).map(|r| (r.cost, r.path))));
                    rd.push(path_rec(s, t, dijkstra(&v, s, t).map(|r| (r.cost, r.path))));
                    if wp.is_empty() {
                        let all = bfs_all_shortest_paths(&v, s, t);
                        let costs_ok = all.iter().all(|p| p.cost == (p.path.len() as f64 - 1.0));
                        ra.push(json!({"s": s, "t": t, "costsMatch": costs_ok, "paths": all.iter().map(|p| p.path.clone()).collect::<Vec<_>>()}));
                    }
                }
            }
            if *wp != "w2" {
                runs.push(json!({"via": "crate", "algo": "bfs", "metric": "hops", "wp": wp, "res": rb}));
            }
            runs.push(json!({"via": "crate", "algo": "dijkstra", "metric": if wp.is_empty() { "hops" } else { "weight" }, "wp": wp, "res": rd}));
            if wp.is_empty() {
                tr.emit(json!({"ev": "AllPaths", "runs": [{"via": "crate", "res": ra}]}))?;
            }
        }
        // CALL algo.shortestPath(s, t [, {weight_property}]) and algo.weightedPath(s, t, prop)
        for wp in &wps {
            let mut rs = Vec::new();
            let mut rw = Vec::new();
            for &s in &nodes {
                for &t in &nodes {
                    let (a, b) = (db.id_of[s as usize], db.id_of[t as usize]);
                    let q = if wp.is_empty() {
                        format!("CALL algo.shortestPath({a}, {b}) YIELD path, cost")
                    } else {
                        format!("CALL algo.shortestPath({a}, {b}, {{weight_property: '{wp}'}}) YIELD path, cost")
                    };
                    rs.push(call_path(&db, &q, s, t));
                    if !wp.is_empty() {
                        rw.push(call_path(&db, &format!("CALL algo.weightedPath({a}, {b}, '{wp}') YIELD path, cost"), s, t));
                    }
                }
            }
            let metric = if wp.is_empty() { "hops" } else { "weight" };
            runs.push(json!({"via": "call-shortestPath", "algo": "call", "metric": metric, "wp": wp, "res": rs}));
            if !wp.is_empty() {
                runs.push(json!({"via": "call-weightedPath", "algo": "call", "metric": metric, "wp": wp, "res": rw}));
            }
        }
        tr.emit(json!({"ev": "Path", "runs": runs}))?;
    }
    // ---------------------------------------------------------------- max flow
    if want("Flow") {
        let mut runs = Vec::new();
        for wp in &wps {
            let v = view_of(&g, &ident, wp, 1);
            let mut rc = Vec::new();
            let mut rq = Vec::new();
            for &s in &nodes {
                for &t in &nodes {
                    if s == t {
                        continue; // no s-t cut exists; edmonds_karp(s, s) does not terminate (reported, not part of C26)
                    }
                    let (val, ex, some) = match edmonds_karp(&v, s, t) {
                        Some(r) => {
                            let (a, b) = int_of(r.max_flow);
                            (a, b, true)
                        }
                        None => (0, true, false),
                    };
                    rc.push(json!({"s": s, "t": t, "val": val, "exact": ex, "some": some}));
                    let (a, b) = (db.id_of[s as usize], db.id_of[t as usize]);
                    let q = if wp.is_empty() { format!("CALL algo.maxFlow({a}, {b}) YIELD max_flow") } else { format!("CALL algo.maxFlow({a}, {b}, '{wp}') YIELD max_flow") };
                    rq.push(match db.call(&q) {
                        Ok(b) if b.records.len() == 1 => match float_of(b.records[0].get("max_flow")) {
                            Some(f) => {
                                let (a, e) = int_of(f);
                                json!({"s": s, "t": t, "val": a, "exact": e, "some": true})
                            }
                            None => json!({"s": s, "t": t, "val": -1, "exact": false, "some": false}),
                        },
                        _ => json!({"s": s, "t": t, "val": -1, "exact": false, "some": false}),
                    });
                }
            }
            runs.push(json!({"via": "crate", "wp": wp, "res": rc}));
            runs.push(json!({"via": "call", "wp": wp, "res": rq}));
        }
        tr.emit(json!({"ev": "Flow", "runs": runs}))?;
    }
    // ---------------------------------------------------------------- minimum spanning tree
    if want("Mst") {
        let mut runs = Vec::new();
        if n > 0 {
            for wp in &wps {
                for (order, tag) in [(&ident, "crate"), (&rev, "crate-rev")] {
                    let v = view_of(&g, order, wp, 1);
                    let r = prim_mst(&v);
                    runs.push(mst_run(tag, wp, order[0], r.total_weight, r.edges.iter().map(|(a, b, w)| (*a, *b, *w)).collect()));
                }
                let q = if wp.is_empty() { "CALL algo.mst() YIELD source, target, weight, total_weight".to_string() } else { format!("CALL algo.mst('{wp}') YIELD source, target, weight, total_weight") };
                runs.push(match db.call(&q) {
                    Ok(b) => {
                        let mut total = None;
                        let mut es = Vec::new();
                        let mut bad = false;
                        for r in &b.records {
                            if let Some(t) = float_of(r.get("total_weight")) {
                                bad |= total.is_some();
                                total = Some(t);
                            } else {
                                match (node_of(r.get("source")), node_of(r.get("target")), float_of(r.get("weight"))) {
                                    (Some(a), Some(c), Some(w)) => es.push((db.h(a), db.h(c), w)),
                                    _ => bad = true,
                                }
                            }
                        }
                        match total {
                            Some(t) if !bad => mst_run("call", wp, 0, t, es),
                            _ => json!({"via": "call", "wp": wp, "start": 0, "total": -1, "exact": false, "edges": []}),
                        }
                    }
                    Err(_) => json!({"via": "call", "wp": wp, "start": 0, "total": -1, "exact": false, "edges": []}),
                });
            }
        }
        tr.emit(json!({"ev": "Mst", "runs": runs}))?;
    }
    // ---------------------------------------------------------------- triangles, clustering coefficients
    if want("Topo") {
        let mut runs = Vec::new();
        for (order, tag) in [(&ident, "crate"), (&rev, "crate-rev")] {
            runs.push(json!({"via": tag, "count": count_triangles(&view_of(&g, order, "", 1))}));
        }
        runs.push(match db.call("CALL algo.triangleCount() YIELD triangles") {
            Ok(b) if b.records.len() == 1 => json!({"via": "call", "count": int_val(b.records[0].get("triangles")).unwrap_or(-1)}),
            _ => json!({"via": "call", "count": -1}),
        });
        tr.emit(json!({"ev": "Tri", "runs": runs}))?;
        let mut runs = Vec::new();
        for directed in [false, true] {
            let r = local_clustering_coefficient_directed(&view_of(&g, &ident, "", 1), directed);
            let (ns, vs) = sorted_scores(&r.coefficients, 1.0);
            runs.push(json!({"via": "crate", "directed": directed, "label": "", "type": "", "nodes": ns, "val": vs, "avg": scaled(r.average), "hasAvg": true}));
        }
        for (l, t) in &lts {
            let q = format!("CALL algo.lcc({}) YIELD node, coefficient", lt_args(l, t));
            runs.push(match db.call(&q).ok().and_then(|b| node_rows(&db, &b, |r| float_of(r.get("coefficient")).map(scaled))) {
                Some((ns, vs)) => json!({"via": "call", "directed": false, "label": l, "type": t, "nodes": ns, "val": vs, "avg": 0, "hasAvg": false}),
                None => json!({"via": "call-failed", "directed": false, "label": l, "type": t, "nodes": [-1], "val": [], "avg": 0, "hasAvg": false}),
            });
        }
        tr.emit(json!({"ev": "Lcc", "runs": runs}))?;
    }
    // ---------------------------------------------------------------- CDLP
    if want("Cdlp") {
        let cd_ks: Vec<usize> = vec![0, 1, 2, 3, 5];
        let mut runs = Vec::new();
        for &k in &cd_ks {
            for (order, tag) in [(&ident, "crate"), (&rev, "crate-rev")] {
                let r = cdlp(&view_of(&g, order, "", 1), &CdlpConfig { max_iterations: k });
                let b: BTreeMap<u64, u64> = r.labels.iter().map(|(a, b)| (*a, *b)).collect();
                runs.push(json!({"via": tag, "label": "", "type": "", "k": k, "nodes": b.keys().collect::<Vec<_>>(), "lab": b.values().collect::<Vec<_>>(), "iters": r.iterations}));
            }
        }
        for (l, t) in &lts {
            let base = l.is_empty() && t.is_empty();
            for k in if base || proj != "full" { vec![1usize, 2, 3] } else { vec![2usize] } {
                let q = format!("CALL algo.cdlp({}) YIELD node, communityId", join_args(lt_args(l, t), format!("{{maxIterations: {k}}}")));
                runs.push(match db.call(&q).ok().and_then(|b| node_rows(&db, &b, |r| int_val(r.get("communityId")).map(|c| db.h(c as u64)))) {
                    Some((ns, vs)) => json!({"via": "call", "label": l, "type": t, "k": k, "nodes": ns, "lab": vs, "iters": k}),
                    None => json!({"via": "call-failed", "label": l, "type": t, "k": k, "nodes": [-1], "lab": [], "iters": 0}),
                });
            }
        }
        tr.emit(json!({"ev": "Cdlp", "runs": runs}))?;
    }
    // ---------------------------------------------------------------- PageRank
    if want("PageRank") {
        let mut runs = Vec::new();
        let cfgs: Vec<PrCfg> = pr_cfgs().into_iter().filter(|c| c.iters <= prmaxit).collect();
        for c in &cfgs {
            for (order, tag) in [(&ident, "crate"), (&rev, "crate-rev")] {
                if tag == "crate-rev" && !(c.iters == 2 && c.dn == 3) {
                    continue;
                }
                let r = page_rank(&view_of(&g, order, "", 1), c.cfg());
                let (ns, vs) = sorted_scores(&r, 1.0);
                runs.push(with(c.js(), json!({"via": tag, "label": "", "type": "", "nodes": ns, "val": vs})));
            }
        }
        // CALL algo.pageRank(label?, type?, {iterations, damping}): tolerance 0.0001 and dangling redistribution are the defaults
        for (l, t) in &lts {
            let base = l.is_empty() && t.is_empty();
            for (dn, dd, dtxt, it) in [(3i64, 4i64, "0.75", 2usize), (1, 2, "0.5", 3)] {
                if (proj == "full" && !base && it == 3) || it > prmaxit {
                    continue;
                }
                let c = PrCfg { dn, dd, iters: it, tol_d: 10000, dang: true };
                let q = format!("CALL algo.pageRank({}) YIELD node, score", join_args(lt_args(l, t), format!("{{iterations: {it}, damping: {dtxt}}}")));
                runs.push(match db.call(&q).ok().and_then(|b| node_rows(&db, &b, |r| float_of(r.get("score")).map(scaled))) {
                    Some((ns, vs)) => with(c.js(), json!({"via": "call", "label": l, "type": t, "nodes": ns, "val": vs})),
                    None => with(c.js(), json!({"via": "call-failed", "label": l, "type": t, "nodes": [-1], "val": []})),
                });
            }
        }
        tr.emit(json!({"ev": "PageRank", "runs": runs}))?;
    }
    // ---------------------------------------------------------------- parallel code paths on disjoint copies
    if want("Rep") {
        if rep > 0 && n > 0 {
            let mut runs = Vec::new();
            let pr = vec![
                PrCfg { dn: 3, dd: 4, iters: 2, tol_d: 0, dang: true },
                PrCfg { dn: 1, dd: 2, iters: 3, tol_d: 10000, dang: true },
                PrCfg { dn: 3, dd: 4, iters: 2, tol_d: 0, dang: false },
            ];
            let big = (1000 + n - 1) / n;
            for copies in if rep > 1 { vec![2u64, big] } else { vec![big] } {
                rep_runs(&g, copies, pools, &pr, &[1, 2, 3], repalgos, &mut runs);
            }
            tr.emit(json!({"ev": "Rep", "runs": runs}))?;
        }
    }
    // ---------------------------------------------------------------- after compaction: leapfrog triangle count, CALL again
    if want("Leap") {
        // no relationship is ever deleted here, so the frozen tier holds exactly the live relationships
        db.store.compact_adjacency();
        let lf = samyama::query::executor::leapfrog::count_triangles_leapfrog(&db.store);
        let mut runs = vec![json!({"via": "leapfrog", "kind": "leap", "count": lf})];
        runs.push(match db.call("CALL algo.triangleCount() YIELD triangles") {
            Ok(b) if b.records.len() == 1 => json!({"via": "call-compacted", "kind": "tri", "count": int_val(b.records[0].get("triangles")).unwrap_or(-1)}),
            _ => json!({"via": "call-compacted", "kind": "tri", "count": -1}),
        });
        tr.emit(json!({"ev": "Leap", "runs": runs}))?;
        let mut runs = Vec::new();
        for (l, t) in &lts {
            let q = format!("CALL algo.wcc({}) YIELD node, componentId", lt_args(l, t));
            let mut r = call_comp(&db, &q, "wcc", l, t);
            if r["via"] == "call" {
                r["via"] = json!("call-compacted");
            }
            runs.push(r);
        }
        tr.emit(json!({"ev": "Comp", "runs": runs}))?;
    }
    Ok(())
}

fn call_comp(db: &Db, q: &str, kind: &str, l: &str, t: &str) -> Value {
    match db.call(q).ok().and_then(|b| node_rows(db, &b, |r| int_val(r.get("componentId")))) {
        Some((ns, cs)) => json!({"via": "call", "kind": kind, "label": l, "type": t, "nodes": ns, "comp": cs, "hasGroups": false, "groups": []}),
        None => json!({"via": "call-failed", "kind": kind, "label": l, "type": t, "nodes": [-1], "comp": [], "hasGroups": false, "groups": []}),
    }
}
fn call_path(db: &Db, q: &str, s: u64, t: u64) -> Value {
    match db.call(q) {
        Ok(b) if b.records.is_empty() => path_rec(s, t, None),
        Ok(b) if b.records.len() == 1 => {
            let r = &b.records[0];
            let cost = float_of(r.get("cost"));
            let path: Option<Vec<u64>> = match r.get("path") {
                Some(QV::Property(PropertyValue::Array(a))) => a.iter().map(|x| if let PropertyValue::Integer(i) = x { Some(db.h(*i as u64)) } else { None }).collect(),
                _ => None,
            };
            match (cost, path) {
                (Some(c), Some(p)) => path_rec(s, t, Some((c, p))),
                _ => json!({"s": s, "t": t, "found": true, "cost": -1, "exact": false, "path": []}),
            }
        }
        _ => json!({"s": s, "t": t, "found": true, "cost": -1, "exact": false, "path": []}),
    }
}
fn mst_run(via: &str, wp: &str, start: u64, total: f64, edges: Vec<(u64, u64, f64)>) -> Value {
    let (tv, mut ex) = int_of(total);
    let es: Vec<Value> = edges
        .iter()
        .map(|(a, b, w)| {
            let (wi, e) = int_of(*w);
            ex &= e;
            json!({"u": a, "v": b, "w": wi})
        })
        .collect();
    json!({"via": via, "wp": wp, "start": start, "total": tv, "exact": ex, "edges": es})
}

// ------------------------------------------------------------------------------------------------ random graphs (certificates)
fn random_graph(rng: &mut StdRng, n: u64, m: usize) -> Graph {
    let mut g = Graph { n, edges: Vec::new() };
    // a few dense clusters plus sparse random relationships: components, cycles, triangles, dangling nodes all occur
    for _ in 0..m {
        let s = rng.gen_range(1..=n);
        let d = if rng.gen_bool(0.6) { (s + rng.gen_range(0..4)).min(n) } else { rng.gen_range(1..=n) };
        g.edges.push(Edge { s, d, w: rng.gen_range(1..=3), t: "T".to_string() });
    }
    g
}

fn run_random(tr: &mut Trace, sid: &str, g: &Graph, rng: &mut StdRng, pools: &Pools, only: &str, repalgos: &str) -> Res<()> {
    let want = |k: &str| only.is_empty() || only.split(',').any(|x| x == k);
    tr.reset(sid)?;
    let n = g.n;
    let ident: Vec<u64> = (1..=n).collect();
    tr.emit(json!({"ev": "RandGraph", "n": n, "edges": g.edges.iter().map(|e| json!({"s": e.s, "d": e.d, "w": e.w, "t": e.t})).collect::<Vec<_>>()}))?;
    if want("Cert") {
    // --- single-source path certificates: the results for ALL targets of a source certify each other
    for (algo, wp) in [("bfs", ""), ("dijkstra", "w"), ("dijkstra", "")] {
        let v = view_of(g, &ident, wp, 1);
        for _ in 0..3 {
            let s = rng.gen_range(1..=n);
            let res: Vec<Value> = ident
                .iter()
                .map(|&t| {
                    let r = if algo == "bfs" { bfs(&v, s, t) } else { dijkstra(&v, s, t) };
                    path_rec(s, t, r.map(|r| (r.cost, r.path)))
                })
                .collect();
            tr.emit(json!({"ev": "CertPaths", "algo": algo, "metric": if wp.is_empty() { "hops" } else { "weight" }, "src": s, "res": res}))?;
        }
    }
    // --- components: labels + connecting paths (found with the crate's own bfs on the symmetrised / directed view)
    let v = view_of(g, &ident, "", 1);
    let mut sym = g.clone();
    for e in &g.edges {
        sym.edges.push(Edge { s: e.d, d: e.s, w: e.w, t: e.t.clone() });
    }
    let vs = view_of(&sym, &ident, "", 1);
    let w = weakly_connected_components(&v);
    let mut rep_of: HashMap<usize, u64> = HashMap::new();
    for &x in &ident {
        let c = w.node_component[&x];
        let e = rep_of.entry(c).or_insert(x);
        if x < *e {
            *e = x;
        }
    }
    let comp: Vec<usize> = ident.iter().map(|x| w.node_component[x]).collect();
    let paths: Vec<Vec<u64>> = ident.iter().map(|&x| bfs(&vs, rep_of[&w.node_component[&x]], x).map(|r| r.path).unwrap_or_default()).collect();
    tr.emit(json!({"ev": "CertWcc", "comp": comp, "paths": paths}))?;
    let sc = strongly_connected_components(&v);
    let mut rep_of: HashMap<usize, u64> = HashMap::new();
    for &x in &ident {
        let c = sc.node_component[&x];
        let e = rep_of.entry(c).or_insert(x);
        if x < *e {
            *e = x;
        }
    }
    let comp: Vec<usize> = ident.iter().map(|x| sc.node_component[x]).collect();
    let to: Vec<Vec<u64>> = ident.iter().map(|&x| bfs(&v, rep_of[&sc.node_component[&x]], x).map(|r| r.path).unwrap_or_default()).collect();
    let from: Vec<Vec<u64>> = ident.iter().map(|&x| bfs(&v, x, rep_of[&sc.node_component[&x]]).map(|r| r.path).unwrap_or_default()).collect();
    // a ranking of the classes along which no relationship goes upwards proves that distinct classes are not mutually
    // reachable; it is a CERTIFICATE (TLC checks it against every relationship), so computing it here judges nothing.
    let rank = class_ranks(g, &sc.node_component);
    tr.emit(json!({"ev": "CertScc", "comp": comp, "to": to, "from": from, "rank": ident.iter().map(|x| rank[&sc.node_component[x]]).collect::<Vec<_>>()}))?;
    // --- max flow: upper bounds by cuts (weak duality only)
    let vw = view_of(g, &ident, "w", 1);
    for _ in 0..4 {
        let s = rng.gen_range(1..=n);
        let t = loop {
            let t = rng.gen_range(1..=n);
            if t != s {
                break t;
            }
        };
        let (val, ex) = edmonds_karp(&vw, s, t).map(|r| int_of(r.max_flow)).unwrap_or((-1, false));
        // sampled cuts: {s}, V \ {t}, balls around s (by the crate's bfs distances), random sets
        let dist: HashMap<u64, i64> = ident.iter().filter_map(|&x| bfs(&vw, s, x).map(|r| (x, r.cost as i64))).collect();
        let mut cuts: Vec<Vec<u64>> = vec![vec![s], ident.iter().cloned().filter(|&x| x != t).collect()];
        for r in 1..6 {
            let ball: Vec<u64> = ident.iter().cloned().filter(|x| *x != t && dist.get(x).map(|d| *d <= r).unwrap_or(false)).collect();
            cuts.push(ball);
        }
        for _ in 0..3 {
            cuts.push(ident.iter().cloned().filter(|&x| x == s || (x != t && rng.gen_bool(0.5))).collect());
        }
        tr.emit(json!({"ev": "CertFlow", "s": s, "t": t, "val": val, "exact": ex, "reach": dist.contains_key(&t), "cuts": cuts}))?;
    }
    }
    // --- parallel code paths: k copies crossing the threshold must repeat the sequential result of one copy
    let copies = (1000 + n - 1) / n + 1;
    let pr = vec![PrCfg { dn: 17, dd: 20, iters: 5, tol_d: 0, dang: true }, PrCfg { dn: 17, dd: 20, iters: 20, tol_d: 10000, dang: false }];
    let mut runs = Vec::new();
    rep_runs(g, 1, pools, &pr, &[1, 4, 10], repalgos, &mut runs);
    rep_runs(g, copies, pools, &pr, &[1, 4, 10], repalgos, &mut runs);
    tr.emit(json!({"ev": "RepRand", "copies": copies, "runs": runs}))?;
    Ok(())
}

/// longest-path layering of the quotient graph (classes of `comp`); classes on a cycle of the quotient keep rank 0
fn class_ranks(g: &Graph, comp: &HashMap<u64, usize>) -> HashMap<usize, i64> {
    let classes: BTreeSet<usize> = comp.values().cloned().collect();
    let mut succ: HashMap<usize, BTreeSet<usize>> = HashMap::new();
    let mut indeg: HashMap<usize, usize> = classes.iter().map(|c| (*c, 0)).collect();
    for e in &g.edges {
        let (a, b) = (comp[&e.s], comp[&e.d]);
        if a != b && succ.entry(a).or_default().insert(b) {
            *indeg.get_mut(&b).unwrap() += 1;
        }
    }
    let mut rank: HashMap<usize, i64> = classes.iter().map(|c| (*c, 0)).collect();
    let mut ready: Vec<usize> = classes.iter().cloned().filter(|c| indeg[c] == 0).collect();
    while let Some(c) = ready.pop() {
        if let Some(ss) = succ.get(&c) {
            for s in ss.clone() {
                let r = rank[&c] + 1;
                if r > rank[&s] {
                    rank.insert(s, r);
                }
                let d = indeg.get_mut(&s).unwrap();
                *d -= 1;
                if *d == 0 {
                    ready.push(s);
                }
            }
        }
    }
    rank
}

fn run(scripts: &str, trace: &str, opts: &Opts) -> Res<()> {
    let mut tr = Trace::create(trace)?;
    let pools = Pools::new();
    let only = opts.get_str("only", "");
    let repalgos = opts.get_str("repalgos", "");
    if opts.get_str("mode", "graphs") == "probe" {
        // not part of any check: does edmonds_karp(s, s) return?  (run in a thread; the process exits afterwards)
        let g = Graph { n: 2, edges: vec![Edge { s: 1, d: 2, w: 1, t: "T".into() }] };
        let (tx, rx) = std::sync::mpsc::channel();
        std::thread::spawn(move || {
            let v = view_of(&g, &[1, 2], "w", 1);
            let r = edmonds_karp(&v, 1, 1).map(|r| r.max_flow);
            let _ = tx.send(r);
        });
        match rx.recv_timeout(std::time::Duration::from_secs(opts.get_u64("secs", 5))) {
            Ok(r) => println!("edmonds_karp(1,1) returned {r:?}"),
            Err(_) => println!("edmonds_karp(1,1) did not return within the time limit"),
        }
        std::process::exit(0);
    }
    if opts.get_str("mode", "graphs") == "random" {
        let mut rng = StdRng::seed_from_u64(opts.get_u64("seed", 1));
        let count = opts.get_u64("count", 10);
        let (minn, maxn) = (opts.get_u64("minn", 20), opts.get_u64("maxn", 300));
        for k in 0..count {
            let n = rng.gen_range(minn..=maxn);
            let m = (n as f64 * rng.gen_range(0.8..2.5)) as usize;
            let g = random_graph(&mut rng, n, m);
            run_random(&mut tr, &format!("rand-{k}"), &g, &mut rng, &pools, &only, &repalgos)?;
        }
        println!("random graphs: {count}, events {}", tr.events);
        return tr.finish();
    }
    let proj = opts.get_str("proj", "basic");
    let rep = opts.get_u64("rep", 0); // 0: no replicated runs, 1: copies crossing the threshold, 2: also the 2-copy control
    let prmaxit = opts.get_u64("prmaxit", 3) as usize;
    let all = read_scripts(scripts)?;
    // scripts whose sid starts with `fullprefix` get the full label/type projections (and no replicated runs);
    // scripts whose sid starts with `midprefix` (5/6-node graphs) get at most 2 PageRank iterations (32-bit TLC integers)
    let fullprefix = opts.get_str("fullprefix", "\u{1}");
    let midprefix = opts.get_str("midprefix", "\u{1}");
    for sc in &all {
        if sc.sid.starts_with(&fullprefix) {
            run_graph(&mut tr, sc, "full", 0, &pools, &only, &repalgos, prmaxit)?;
        } else if sc.sid.starts_with(&midprefix) {
            run_graph(&mut tr, sc, &proj, rep, &pools, &only, &repalgos, prmaxit.min(2))?;
        } else {
            run_graph(&mut tr, sc, &proj, rep, &pools, &only, &repalgos, prmaxit)?;
        }
    }
    println!("scripts: {}, events {}", all.len(), tr.events);
    tr.finish()
}

fn main() {
    harness_main(run);
}
