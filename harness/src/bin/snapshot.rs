//! C13 / C12: .sgsnap export and import (src/snapshot/mod.rs).
//!
//! C13 scripts: [Load{nodes,rels,via}, Import{snap,keys}].  The Import step is expanded by the
//! harness into one run per variant of the real exported file: intact, truncated at byte offsets
//! (all, or every n-th: option cut=n), single-byte flips (option flips=k, seeded), for the gzip
//! levels in option levels (default "3"; level 0 = stored blocks, so a cut / flip lands at a
//! known place of the plain text).  Every run starts from a freshly loaded store, logs the dump
//! after Load and after every import call, and a failed import is followed by an intact one.
//!
//! C12 scripts: graph building operations through the GraphStore API (Node / Rel / SetProp /
//! Bump / DelRel / Compact / Hier) followed by RoundTrip = export_tenant + import_tenant into an
//! empty store; the dump of the imported store is logged.
//!
//! Values travel as tokens (strings): see `pv_to_tok` (canonical text of a PropertyValue) and
//! `tok_to_pv` (table of the concrete boundary values + the simple forms i:N, s:TEXT, b:..).
use samyama::graph::{EdgeId, EdgeType, GraphStore, Label, NodeId, PropertyValue};
use samyama::snapshot::{export_tenant_with_compression, import_tenant_with_dedup};
use serde_json::{json, Map, Value};
use std::collections::{BTreeMap, HashMap};
use verif_harness::*;

// ------------------------------------------------------------------ values <-> tokens
fn f64_tok(f: f64) -> String {
    if f.is_nan() {
        "nan".into()
    } else if f == f64::INFINITY {
        "inf".into()
    } else if f == f64::NEG_INFINITY {
        "-inf".into()
    } else {
        format!("{f:?}")
    }
}

// two string classes whose concrete text is not ASCII-safe for a TLC configuration file travel under a name
const NONASCII: &str = "h\u{e9}llo \u{2713} \u{1F600}";
const ESCAPES: &str = "tab\tnl\nq\"b\\";

pub fn pv_to_tok(v: &PropertyValue) -> String {
    match v {
        PropertyValue::String(s) if s == NONASCII => "s:@nonascii".into(),
        PropertyValue::String(s) if s == ESCAPES => "s:@escapes".into(),
        PropertyValue::String(s) => format!("s:{s}"),
        PropertyValue::Integer(i) => format!("i:{i}"),
        PropertyValue::Float(f) => format!("f:{}", f64_tok(*f)),
        PropertyValue::Boolean(b) => format!("b:{b}"),
        PropertyValue::DateTime(d) => format!("dt:{d}"),
        PropertyValue::Null => "null".into(),
        PropertyValue::Vector(x) => format!("v:[{}]", x.iter().map(|f| f64_tok(*f as f64)).collect::<Vec<_>>().join(",")),
        PropertyValue::Duration { months, days, seconds, nanos } => format!("du:{months},{days},{seconds},{nanos}"),
        PropertyValue::Array(a) => format!("a:[{}]", a.iter().map(pv_to_tok).collect::<Vec<_>>().join("|")),
        PropertyValue::Map(m) => {
            let b: BTreeMap<_, _> = m.iter().collect();
            format!("m:{{{}}}", b.iter().map(|(k, v)| format!("{k}={}", pv_to_tok(v))).collect::<Vec<_>>().join(";"))
        }
    }
}

/// the concrete boundary values of C12 (one per class token); the token is pv_to_tok(value)
fn boundary_values() -> Vec<PropertyValue> {
    use PropertyValue as P;
    let map = |kv: Vec<(&str, P)>| P::Map(kv.into_iter().map(|(k, v)| (k.to_string(), v)).collect::<HashMap<_, _>>());
    vec![
        P::String("plain".into()),
        P::String(" lead".into()),
        P::String("trail ".into()),
        P::String(" ".into()),
        P::String("".into()),
        P::String(NONASCII.into()),
        P::String(ESCAPES.into()),
        P::Integer(7),
        P::Integer(i64::MAX),
        P::Integer(i64::MIN),
        P::Float(2.5),
        P::Float(2.0),
        P::Float(-0.0),
        P::Float(1e300),
        P::Float(f64::NAN),
        P::Float(f64::INFINITY),
        P::Float(f64::NEG_INFINITY),
        P::Boolean(true),
        P::Null,
        P::DateTime(1_700_000_000_123),
        P::Duration { months: 1, days: 2, seconds: 3, nanos: 4 },
        P::Vector(vec![1.5, -2.0]),
        P::Vector(vec![]),
        P::Array(vec![P::Integer(1), P::String("x".into())]),
        P::Array(vec![P::String(" pad ".into())]),
        P::Array(vec![]),
        map(vec![("a", P::Integer(1)), ("b", map(vec![("c", P::String("z".into()))]))]),
        map(vec![("__type", P::String("DateTime".into())), ("value", P::Integer(5))]),
        map(vec![("__type", P::String("Vector".into())), ("value", P::Array(vec![P::Float(1.0)]))]),
        map(vec![("__type", P::String("Other".into()))]),
        map(vec![]),
    ]
}

pub struct Toks(HashMap<String, PropertyValue>);
impl Toks {
    fn new() -> Self {
        Toks(boundary_values().into_iter().map(|v| (pv_to_tok(&v), v)).collect())
    }
    fn pv(&self, t: &str) -> PropertyValue {
        if let Some(v) = self.0.get(t) {
            return v.clone();
        }
        if let Some(r) = t.strip_prefix("i:") {
            return PropertyValue::Integer(r.parse().expect("int token"));
        }
        if let Some(r) = t.strip_prefix("s:") {
            return PropertyValue::String(r.to_string());
        }
        if let Some(r) = t.strip_prefix("b:") {
            return PropertyValue::Boolean(r == "true");
        }
        panic!("unknown value token {t}")
    }
}

// ------------------------------------------------------------------ dump
fn props_json(m: impl Iterator<Item = (String, PropertyValue)>) -> Value {
    let mut o = Map::new();
    let b: BTreeMap<String, PropertyValue> = m.collect();
    for (k, v) in b {
        if v.is_null() {
            continue; // a property holding null is an absent property
        }
        o.insert(k, json!(pv_to_tok(&v)));
    }
    Value::Object(o)
}

/// every node (as all_nodes lists them: one entry per stored version) with label set and merged
/// properties (column over row, the view queries read), every relationship reachable through the
/// outgoing adjacency of a listed node or through all_edges, node_count, edge_count
fn dump(store: &GraphStore) -> Value {
    let mut nodes = Vec::new();
    let mut ids: Vec<NodeId> = Vec::new();
    for n in store.all_nodes() {
        let mut labels: Vec<String> = n.labels.iter().map(|l| l.as_str().to_string()).collect();
        labels.sort();
        let props = if ids.contains(&n.id) || store.get_node(n.id).map(|c| c.version) != Some(n.version) {
            props_json(n.properties.iter().map(|(k, v)| (k.clone(), v.clone()))) // an older version: its own row
        } else {
            props_json(store.node_properties_merged(n.id).into_iter())
        };
        nodes.push((n.id.as_u64(), json!({"id": n.id.as_u64(), "labels": labels, "props": props})));
        if !ids.contains(&n.id) {
            ids.push(n.id);
        }
    }
    nodes.sort_by_key(|x| x.0);
    let mut rels: BTreeMap<u64, Value> = BTreeMap::new();
    let eprops = |e: EdgeId| -> Value {
        match store.get_edge(e) {
            Some(ed) => props_json(ed.properties.iter().map(|(k, v)| (k.clone(), v.clone()))),
            None => json!({}),
        }
    };
    for id in &ids {
        for (eid, s, t, ty) in store.get_outgoing_edge_targets_owned(*id) {
            rels.insert(eid.as_u64(), json!({"id": eid.as_u64(), "src": s.as_u64(), "dst": t.as_u64(), "type": ty.as_str(), "props": eprops(eid)}));
        }
    }
    for e in store.all_edges() {
        rels.entry(e.id.as_u64()).or_insert_with(|| {
            json!({"id": e.id.as_u64(), "src": e.source.as_u64(), "dst": e.target.as_u64(), "type": e.edge_type.as_str(),
                   "props": props_json(e.properties.iter().map(|(k, v)| (k.clone(), v.clone())))})
        });
    }
    json!({"nodes": nodes.into_iter().map(|x| x.1).collect::<Vec<_>>(), "rels": rels.into_values().collect::<Vec<_>>(),
           "nc": store.node_count(), "ec": store.edge_count()})
}

fn hier(store: &GraphStore) -> Value {
    let mut v: Vec<Value> = store
        .hierarchy_index
        .list()
        .iter()
        .map(|i| {
            let mut et = i.edge_types.clone();
            et.sort();
            let mut ops: Vec<String> = i.ops.iter().map(|o| o.to_string()).collect();
            ops.sort();
            json!({"name": i.name, "types": et, "measure": i.measure.clone().unwrap_or_default(), "ops": ops})
        })
        .collect();
    v.sort_by_key(|x| x["name"].as_str().unwrap_or("").to_string());
    Value::Array(v)
}

// ------------------------------------------------------------------ building graphs through the API
fn labels_of(n: &Value) -> Vec<String> {
    n["labels"].as_array().map(|a| a.iter().filter_map(|x| x.as_str().map(String::from)).collect()).unwrap_or_default()
}
fn props_of(t: &Toks, n: &Value) -> Vec<(String, PropertyValue)> {
    n["props"].as_object().map(|o| o.iter().map(|(k, v)| (k.clone(), t.pv(v.as_str().unwrap()))).collect()).unwrap_or_default()
}

fn add_node(t: &Toks, s: &mut GraphStore, n: &Value, via: &str) -> NodeId {
    let labels = labels_of(n);
    if via == "stub" {
        let id = s.create_node_stub(labels.first().cloned().unwrap_or_default().as_str());
        for l in labels.iter().skip(1) {
            let _ = s.add_label_to_node("default", id, l.as_str());
        }
        for (k, v) in props_of(t, n) {
            s.set_column_property(id, &k, v);
        }
        id
    } else {
        let id = s.create_node_with_labels(labels.iter().map(|l| Label::new(l.as_str())));
        for (k, v) in props_of(t, n) {
            s.set_node_property("default", id, k, v).expect("set_node_property");
        }
        id
    }
}

fn add_rel(t: &Toks, s: &mut GraphStore, r: &Value, ids: &[NodeId], via: &str) -> Result<EdgeId, String> {
    let (a, b) = (ids[gi(r, "src") as usize - 1], ids[gi(r, "dst") as usize - 1]);
    let ty = gs(r, "type");
    let props = props_of(t, r);
    if via == "stub" {
        return s.create_edge_stub(a, b, ty).map_err(|e| e.to_string());
    }
    if props.is_empty() {
        s.create_edge(a, b, ty).map_err(|e| e.to_string())
    } else {
        s.create_edge_with_properties(a, b, ty, props.into_iter().collect()).map_err(|e| e.to_string())
    }
}

fn build(t: &Toks, g: &Value, via: &str) -> GraphStore {
    let mut s = GraphStore::new();
    let mut ids = Vec::new();
    for n in g["nodes"].as_array().cloned().unwrap_or_default() {
        ids.push(add_node(t, &mut s, &n, via));
    }
    for r in g["rels"].as_array().cloned().unwrap_or_default() {
        add_rel(t, &mut s, &r, &ids, via).expect("rel");
    }
    s
}

fn export(s: &GraphStore, level: u32) -> Vec<u8> {
    let mut buf = Vec::new();
    export_tenant_with_compression(s, &mut buf, level).expect("export");
    buf
}

fn import(store: &mut GraphStore, bytes: &[u8], keys: &[String]) -> &'static str {
    let k: Vec<&str> = keys.iter().map(|s| s.as_str()).collect();
    match catch(|| import_tenant_with_dedup(store, bytes, &k).map(|_| ()).map_err(|e| e.to_string())) {
        Ok(Ok(())) => "ok",
        Ok(Err(_)) => "err",
        Err(_) => "panic",
    }
}

// ------------------------------------------------------------------ C13
fn load(t: &Toks, step: &Value) -> GraphStore {
    let g = json!({"nodes": step["nodes"], "rels": step["rels"]});
    match step["via"].as_str().unwrap_or("api") {
        "import" => {
            let src = build(t, &g, "api");
            let mut s = GraphStore::new();
            assert_eq!(import(&mut s, &export(&src, 3), &[]), "ok");
            s
        }
        // the same store after two more nodes were created and deleted again: its free lists are not empty, so the
        // import allocates recycled ids (below the store's next fresh id) before fresh ones
        "api-holes" => {
            let mut s = build(t, &g, "api");
            let a = s.create_node("Scratch");
            let b = s.create_node("Scratch");
            let _ = s.create_edge(a, b, "SCRATCH");
            s.delete_node("default", a).expect("scratch");
            s.delete_node("default", b).expect("scratch");
            s
        }
        via => build(t, &g, via),
    }
}

fn run_c13(tr: &mut Trace, t: &Toks, sc: &Script, opts: &Opts) -> Res<()> {
    let ld = &sc.steps[0];
    let im = &sc.steps[1];
    let keys: Vec<String> = im["keys"].as_array().map(|a| a.iter().filter_map(|x| x.as_str().map(String::from)).collect()).unwrap_or_default();
    let every = opts.get_u64("cut", 7) as usize;
    let nflips = opts.get_u64("flips", 8) as usize;
    let mut seed = opts.get_u64("seed", 1) ^ (sc.sid.len() as u64) ^ sc.sid.bytes().fold(0u64, |a, b| a.wrapping_mul(131).wrapping_add(b as u64));
    let mut rnd = move || {
        seed ^= seed << 13;
        seed ^= seed >> 7;
        seed ^= seed << 17;
        seed
    };
    let src = build(t, &im["snap"], "api");
    for level in opts.get_str("levels", "3").split(',').filter_map(|x| x.parse::<u32>().ok()) {
        let file = export(&src, level);
        // (mode, offset, mask)
        let mut variants: Vec<(&str, usize, u8)> = vec![("intact", 0, 0)];
        if let Some(m) = im["mode"].as_str() {
            variants = vec![(if m == "cut" { "cut" } else if m == "flip" { "flip" } else { "intact" }, gi(im, "off") as usize, im["mask"].as_u64().unwrap_or(1) as u8)];
        } else {
            let phase = (rnd() as usize) % every.max(1);
            variants.extend((0..file.len()).filter(|b| every <= 1 || b % every == phase || *b + 12 >= file.len() || *b < 12).map(|b| ("cut", b, 0u8)));
            for _ in 0..nflips {
                variants.push(("flip", (rnd() as usize) % file.len(), 1u8 << (rnd() % 8)));
            }
        }
        for (mode, off, mask) in variants {
            tr.reset(&format!("{}#L{}-{}{}", sc.sid, level, mode, off))?;
            let mut store = load(t, ld);
            tr.emit(event_from(ld, json!({"obs": {"dump": dump(&store)}})))?;
            let bytes: Vec<u8> = match mode {
                "cut" => file[..off.min(file.len())].to_vec(),
                "flip" => {
                    let mut b = file.clone();
                    let o = off.min(b.len() - 1);
                    b[o] ^= mask;
                    b
                }
                _ => file.clone(),
            };
            let res = import(&mut store, &bytes, &keys);
            tr.emit(event_from(im, json!({"mode": mode, "off": off, "mask": mask, "level": level, "len": file.len(), "res": res, "obs": {"dump": dump(&store)}})))?;
            // a second, intact import on whatever the first call left
            let res2 = import(&mut store, &file, &keys);
            tr.emit(event_from(im, json!({"mode": "intact", "off": 0, "mask": 0, "level": level, "len": file.len(), "res": res2, "obs": {"dump": dump(&store)}})))?;
        }
    }
    Ok(())
}


// ------------------------------------------------------------------ C12 scaled families
/// ring / chain / sparse graph of size n (see SnapshotRT.tla FamEdges): node h has label A and i = h, every
/// relationship has type R and w = 7; export, import into an empty store, abstract the imported graph to counts
fn family_rt(kind: &str, n: i64) -> Value {
    let mut s = GraphStore::new();
    let nn = if kind == "ring" { n } else { n + 1 };
    let mut ids = Vec::new();
    for h in 1..=nn {
        let id = s.create_node_with_labels([Label::new("A")]);
        s.set_node_property("default", id, "i", PropertyValue::Integer(h)).expect("set i");
        ids.push(id);
    }
    let mut rels = Vec::new();
    for h in 1..=n {
        let d = if kind == "ring" { h % n + 1 } else { h + 1 };
        let props: samyama::graph::PropertyMap = [("w".to_string(), PropertyValue::Integer(7))].into_iter().collect();
        rels.push((h, s.create_edge_with_properties(ids[h as usize - 1], ids[d as usize - 1], "R", props).expect("edge")));
    }
    if kind == "sparse" {
        for (h, e) in &rels {
            if ![1, n / 2, n].contains(h) {
                s.delete_edge(*e).expect("delete");
            }
        }
    }
    let mut buf = Vec::new();
    let mut imp = GraphStore::new();
    let res = match catch(|| samyama::snapshot::export_tenant(&s, &mut buf).map(|_| ()).map_err(|e| e.to_string())) {
        Ok(Ok(())) => import(&mut imp, &buf, &[]),
        Ok(Err(_)) => "export-err",
        Err(_) => "export-panic",
    };
    // abstraction of the imported store
    let d = dump(&imp);
    let mut handle: HashMap<u64, i64> = HashMap::new();
    let (mut hs, mut labelled) = (Vec::new(), 0);
    for nd in d["nodes"].as_array().unwrap() {
        let h = nd["props"]["i"].as_str().and_then(|t| t.strip_prefix("i:")).and_then(|x| x.parse::<i64>().ok()).unwrap_or(0);
        handle.insert(nd["id"].as_u64().unwrap(), h);
        hs.push(h);
        if nd["labels"] == json!(["A"]) && nd["props"].as_object().map(|o| o.len()) == Some(1) {
            labelled += 1;
        }
    }
    let total = hs.len();
    let (min, max) = (hs.iter().min().copied().unwrap_or(0), hs.iter().max().copied().unwrap_or(0));
    hs.sort();
    hs.dedup();
    let mut groups: BTreeMap<(i64, String, String), (i64, i64)> = BTreeMap::new();
    for r in d["rels"].as_array().unwrap() {
        let (a, b) = (handle[&r["src"].as_u64().unwrap()], handle[&r["dst"].as_u64().unwrap()]);
        let off = (b + nn - a).rem_euclid(nn);
        let e = groups.entry((off, r["type"].as_str().unwrap().to_string(), r["props"].to_string())).or_insert((0, 0));
        e.0 += 1;
        e.1 += a;
    }
    let groups: Vec<Value> = groups
        .into_iter()
        .map(|((off, ty, props), (count, srcsum))| json!({"off": off, "type": ty, "props": serde_json::from_str::<Value>(&props).unwrap(), "count": count, "srcsum": srcsum}))
        .collect();
    json!({"res": res, "obs": {"nodes": {"total": total, "distinct": hs.len(), "min": min, "max": max, "labelled": labelled}, "groups": groups,
                               "nc": d["nc"], "ec": d["ec"]}})
}

// ------------------------------------------------------------------ C12
fn run_c12(tr: &mut Trace, t: &Toks, sc: &Script) -> Res<()> {
    tr.reset(&sc.sid)?;
    let mut s = GraphStore::new();
    let mut nodes: HashMap<i64, NodeId> = HashMap::new();
    let mut rels: HashMap<i64, EdgeId> = HashMap::new();
    for step in &sc.steps {
        let op = gs(step, "op");
        let mut extra = json!({"res": "ok"});
        match op {
            "Node" => {
                let id = add_node(t, &mut s, step, step["via"].as_str().unwrap_or("api"));
                nodes.insert(gi(step, "h"), id);
            }
            "Rel" => {
                let (a, b) = (nodes[&gi(step, "src")], nodes[&gi(step, "dst")]);
                let via = step["via"].as_str().unwrap_or("api");
                let props = props_of(t, step);
                let r = if via == "stub" {
                    s.create_edge_stub(a, b, gs(step, "type"))
                } else if props.is_empty() {
                    s.create_edge(a, b, gs(step, "type"))
                } else {
                    s.create_edge_with_properties(a, b, gs(step, "type"), props.into_iter().collect())
                };
                match r {
                    Ok(e) => {
                        rels.insert(gi(step, "h"), e);
                    }
                    Err(_) => extra = json!({"res": "err"}),
                }
            }
            "SetProp" => {
                if s.set_node_property("default", nodes[&gi(step, "h")], gs(step, "key"), t.pv(gs(step, "tok"))).is_err() {
                    extra = json!({"res": "err"});
                }
            }
            "Bump" => {
                // a committed transaction advances the store version: the next write to a node copies it
                let tx = s.begin_transaction(samyama::graph::IsolationLevel::SnapshotIsolation);
                if s.commit_transaction(tx).is_err() {
                    extra = json!({"res": "err"});
                }
            }
            "DelRel" => {
                if s.delete_edge(rels[&gi(step, "h")]).is_err() {
                    extra = json!({"res": "err"});
                }
            }
            "Compact" => s.compact_adjacency(),
            "Hier" => {
                use samyama::index::hierarchy::{HierarchySpec, RollupOp};
                let types: Vec<EdgeType> = step["types"].as_array().unwrap().iter().map(|x| EdgeType::new(x.as_str().unwrap())).collect();
                let mut spec = HierarchySpec::new(gs(step, "name").to_string(), types);
                if let Some(m) = step["measure"].as_str().filter(|m| !m.is_empty()) {
                    let ops: Vec<RollupOp> = step["ops"].as_array().map(|a| a.iter().filter_map(|o| RollupOp::parse(o.as_str().unwrap())).collect()).unwrap_or_default();
                    spec = spec.with_measure(None, m.to_string(), ops);
                }
                let mgr = std::sync::Arc::clone(&s.hierarchy_index);
                if mgr.create(&s, spec).is_err() {
                    extra = json!({"res": "err"});
                }
            }
            "FamilyRT" => extra = family_rt(gs(step, "kind"), gi(step, "n")),
            "RoundTrip" => {
                let mut buf = Vec::new();
                let mut imp = GraphStore::new();
                let res = match catch(|| samyama::snapshot::export_tenant(&s, &mut buf).map(|_| ()).map_err(|e| e.to_string())) {
                    Ok(Ok(())) => import(&mut imp, &buf, &[]),
                    Ok(Err(_)) => "export-err",
                    Err(_) => "export-panic",
                };
                extra = json!({"res": res, "obs": {"dump": dump(&imp), "hier": hier(&imp), "src_hier": hier(&s)}});
            }
            _ => return Err(format!("unknown op {op}").into()),
        }
        tr.emit(event_from(step, extra))?;
    }
    Ok(())
}

fn run(scripts: &str, trace: &str, opts: &Opts) -> Res<()> {
    let scripts = read_scripts(scripts)?;
    let mut tr = Trace::create(trace)?;
    let t = Toks::new();
    if opts.0.contains_key("tokens") {
        for v in boundary_values() {
            println!("{}", serde_json::to_string(&pv_to_tok(&v))?);
        }
    }
    for sc in &scripts {
        if sc.steps.first().map(|s| gs(s, "op")) == Some("Load") {
            run_c13(&mut tr, &t, sc, opts)?;
        } else {
            run_c12(&mut tr, &t, sc)?;
        }
    }
    println!("{} scripts, {} events", scripts.len(), tr.events);
    tr.finish()
}

fn main() {
    harness_main(run);
}
