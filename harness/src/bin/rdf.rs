//! C36: RDF serializations round-trip every triple set (src/rdf/serialization/{ntriples,turtle,rdfxml}.rs, src/rdf/types.rs)
//!
//! A script step is   {"op":"RoundTrip","fmt":"nt"|"ttl"|"xml","ts":[{"s":T,"p":T,"o":T},..]}
//! with abstract terms T = {"k":"iri"|"bn"|"lit","v":[class,..],"q":qualifier}   (spec/Rdf.tla)
//!   k=iri  v = classes of the IRI's variable part (concrete IRI = "http://e/" + chars), q = ""
//!   k=bn   v = [], q = blank node label ("b1","b2")
//!   k=lit  v = classes of the lexical form, q = "" (simple) | "@en" | "@en-US" | "^str" (xsd:string) | "^int" (xsd:integer) | "^cus" (http://e/dt)
//!
//! Concretisation table (class -> character); the inverse maps every other character to class "other":
//!   pl 'a'   qu '"'   bs '\'   lf U+000A   cr U+000D   ct U+0001   as U+1F600   sp ' '   lt '<'   am '&'
//!
//! The harness builds the triples with the public constructors of samyama::rdf, serializes with
//! RdfSerializer::serialize(.., format), parses the output with RdfParser::parse(.., same format), abstracts the parsed
//! triples back to classes and logs them (or the stage that failed).  It compares nothing: Rdf_Trace.tla judges.
use samyama::rdf::{BlankNode, Literal, NamedNode, RdfFormat, RdfObject, RdfParser, RdfPredicate, RdfSerializer, RdfSubject, Triple};
use serde_json::{json, Value};
use verif_harness::*;

const BASE: &str = "http://e/";
const XSD_STRING: &str = "http://www.w3.org/2001/XMLSchema#string";
const XSD_INTEGER: &str = "http://www.w3.org/2001/XMLSchema#integer";
const CUSTOM_DT: &str = "http://e/dt";

const TABLE: &[(&str, char)] = &[
    ("pl", 'a'),
    ("qu", '"'),
    ("bs", '\\'),
    ("lf", '\n'),
    ("cr", '\r'),
    ("ct", '\u{1}'),
    ("as", '\u{1F600}'),
    ("sp", ' '),
    ("lt", '<'),
    ("am", '&'),
];

fn concretise(v: &Value) -> String {
    let mut s = String::new();
    for c in v.as_array().expect("class list") {
        let name = c.as_str().expect("class name");
        let ch = TABLE.iter().find(|(n, _)| *n == name).unwrap_or_else(|| panic!("unknown class {name}")).1;
        s.push(ch);
    }
    s
}

fn abstract_str(s: &str) -> Vec<&'static str> {
    s.chars().map(|ch| TABLE.iter().find(|(_, c)| *c == ch).map(|(n, _)| *n).unwrap_or("other")).collect()
}

fn abs_iri(iri: &str) -> Value {
    match iri.strip_prefix(BASE) {
        Some(rest) => json!({"k": "iri", "v": abstract_str(rest), "q": ""}),
        None => json!({"k": "iri", "v": ["other"], "q": "other"}),
    }
}

fn abs_bn(id: &str) -> Value {
    json!({"k": "bn", "v": [], "q": id})
}

fn abs_lit(l: &Literal) -> Value {
    let q = if let Some(lang) = l.language() {
        // language tags compare case-insensitively (RDF 1.1 concepts 3.3)
        if lang.eq_ignore_ascii_case("en") {
            "@en".to_string()
        } else if lang.eq_ignore_ascii_case("en-US") {
            "@en-US".to_string()
        } else {
            "@other".to_string()
        }
    } else {
        match l.datatype().as_str() {
            XSD_STRING => "".to_string(),
            XSD_INTEGER => "^int".to_string(),
            CUSTOM_DT => "^cus".to_string(),
            _ => "^other".to_string(),
        }
    };
    json!({"k": "lit", "v": abstract_str(l.value()), "q": q})
}

fn abs_triple(t: &Triple) -> Value {
    let s = match &t.subject {
        RdfSubject::NamedNode(n) => abs_iri(n.as_str()),
        RdfSubject::BlankNode(b) => abs_bn(b.as_str()),
    };
    let p = abs_iri(t.predicate.as_named_node().as_str());
    let o = match &t.object {
        RdfObject::NamedNode(n) => abs_iri(n.as_str()),
        RdfObject::BlankNode(b) => abs_bn(b.as_str()),
        RdfObject::Literal(l) => abs_lit(l),
    };
    json!({"s": s, "p": p, "o": o})
}

fn iri(t: &Value) -> Result<NamedNode, String> {
    NamedNode::new(&format!("{BASE}{}", concretise(&t["v"]))).map_err(|e| e.to_string())
}

fn build(t: &Value) -> Result<Triple, String> {
    let s = &t["s"];
    let subject = match gs(s, "k") {
        "iri" => RdfSubject::NamedNode(iri(s)?),
        "bn" => RdfSubject::BlankNode(BlankNode::from_str(gs(s, "q")).map_err(|e| e.to_string())?),
        k => panic!("bad subject kind {k}"),
    };
    let predicate = RdfPredicate::new(&format!("{BASE}{}", concretise(&t["p"]["v"]))).map_err(|e| e.to_string())?;
    let o = &t["o"];
    let object = match gs(o, "k") {
        "iri" => RdfObject::NamedNode(iri(o)?),
        "bn" => RdfObject::BlankNode(BlankNode::from_str(gs(o, "q")).map_err(|e| e.to_string())?),
        "lit" => {
            let v = concretise(&o["v"]);
            RdfObject::Literal(match gs(o, "q") {
                "" => Literal::new_simple_literal(v),
                "@en" => Literal::new_language_tagged_literal(v, "en").map_err(|e| e.to_string())?,
                "@en-US" => Literal::new_language_tagged_literal(v, "en-US").map_err(|e| e.to_string())?,
                "^str" => Literal::new_typed_literal(v, NamedNode::new(XSD_STRING).map_err(|e| e.to_string())?),
                "^int" => Literal::new_typed_literal(v, NamedNode::new(XSD_INTEGER).map_err(|e| e.to_string())?),
                "^cus" => Literal::new_typed_literal(v, NamedNode::new(CUSTOM_DT).map_err(|e| e.to_string())?),
                q => panic!("bad literal qualifier {q}"),
            })
        }
        k => panic!("bad object kind {k}"),
    };
    Ok(Triple::new(subject, predicate, object))
}

fn format_of(f: &str) -> RdfFormat {
    match f {
        "nt" => RdfFormat::NTriples,
        "ttl" => RdfFormat::Turtle,
        "xml" => RdfFormat::RdfXml,
        _ => panic!("unknown format {f}"),
    }
}

fn round_trip(step: &Value, debug: bool) -> Value {
    let fmt = format_of(gs(step, "fmt"));
    let mut triples = Vec::new();
    for t in step["ts"].as_array().expect("ts") {
        match build(t) {
            Ok(t) => triples.push(t),
            Err(e) => return json!({"res": "unbuildable", "out": [], "why": e}),
        }
    }
    let text = match catch(|| RdfSerializer::serialize(&triples, fmt)) {
        Err(p) => return json!({"res": "ser_panic", "out": [], "why": p}),
        Ok(Err(e)) => return json!({"res": "ser_err", "out": [], "why": e.to_string()}),
        Ok(Ok(t)) => t,
    };
    let parsed = match catch(|| RdfParser::parse(&text, fmt)) {
        Err(p) => return json!({"res": "parse_panic", "out": [], "why": p}),
        Ok(Err(e)) => {
            let mut r = json!({"res": "parse_err", "out": [], "why": e.to_string()});
            if debug {
                r["txt"] = json!(text);
            }
            return r;
        }
        Ok(Ok(p)) => p,
    };
    let out: Vec<Value> = parsed.iter().map(abs_triple).collect();
    let mut r = json!({"res": "ok", "out": out, "n": parsed.len()});
    if debug {
        r["txt"] = json!(text);
    }
    r
}

fn run(scripts: &str, trace: &str, opts: &Opts) -> Res<()> {
    let scripts = read_scripts(scripts)?;
    let debug = opts.get_u64("debug", 0) == 1;
    let mut tr = Trace::create(trace)?;
    let mut counts = std::collections::BTreeMap::<String, u64>::new();
    for s in &scripts {
        tr.reset(&s.sid)?;
        for step in &s.steps {
            match gs(step, "op") {
                "RoundTrip" => {
                    let r = round_trip(step, debug);
                    *counts.entry(r["res"].as_str().unwrap().to_string()).or_default() += 1;
                    tr.emit(event_from(step, r))?;
                }
                op => panic!("unknown op {op}"),
            }
        }
    }
    println!("rdf: {} scripts {:?}", scripts.len(), counts);
    tr.finish()
}

fn main() {
    harness_main(run);
}
