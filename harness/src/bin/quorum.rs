//! C33: ClusterConfig / ClusterManager membership and health (src/raft/cluster.rs)
use samyama::raft::cluster::{ClusterConfig, ClusterManager, NodeRole};
use serde_json::json;
use verif_harness::*;

fn run(scripts: &str, trace: &str, _opts: &Opts) -> Res<()> {
    let scripts = read_scripts(scripts)?;
    let mut tr = Trace::create(trace)?;
    let rt = rt();
    for s in &scripts {
        tr.reset(&s.sid)?;
        let mut cfg = ClusterConfig::new("c".to_string(), 1);
        let mut mgr: Option<ClusterManager> = None;
        for step in &s.steps {
            let op = gs(step, "op");
            let mut extra = json!({});
            match op {
                "CfgAdd" => {
                    cfg.add_node(gi(step, "id") as u64, format!("a{}", gi(step, "id")), step["voter"].as_bool().unwrap());
                }
                "Start" => match ClusterManager::new(cfg.clone()) {
                    Ok(m) => {
                        mgr = Some(m);
                        extra = json!({"res": "ok"});
                    }
                    Err(_) => {
                        extra = json!({"res": "err"});
                    }
                },
                _ => {
                    let m = mgr.as_ref().expect("script uses the manager before Start succeeded");
                    let id = gi(step, "id") as u64;
                    rt.block_on(async {
                        match op {
                            "AddNode" => m.add_node(id, format!("a{id}"), step["voter"].as_bool().unwrap()).await.unwrap(),
                            "RemoveNode" => m.remove_node(id).await.unwrap(),
                            "MarkActive" => m.mark_active(id).await,
                            "MarkInactive" => m.mark_inactive(id).await,
                            "SetRole" => {
                                let role = if step["leader"].as_bool().unwrap() { NodeRole::Leader } else { NodeRole::Follower };
                                m.update_node_role(id, role).await
                            }
                            _ => panic!("unknown op {op}"),
                        }
                    });
                }
            }
            if let Some(m) = mgr.as_ref() {
                let h = rt.block_on(m.health_status());
                let c = rt.block_on(m.get_config());
                let nodes: Vec<_> = c.nodes.iter().map(|n| json!([n.id, n.voter])).collect();
                let mut act = rt.block_on(m.get_active_nodes());
                act.sort();
                let mut o = json!({"obs": {"healthy": h.healthy, "has_leader": h.has_leader, "total_voters": h.total_voters,
                    "active_voters": h.active_voters, "config": nodes, "active": act}});
                if let Some(r) = extra.get("res") {
                    o["res"] = r.clone();
                }
                tr.emit(event_from(step, o))?;
            } else {
                tr.emit(event_from(step, extra))?;
            }
        }
    }
    tr.finish()
}

fn main() {
    harness_main(run);
}
