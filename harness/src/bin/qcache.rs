//! C03: the parsed-query cache of QueryEngine (src/query/mod.rs).
//! One engine per script (Open = QueryEngine::with_capacity).  Every Exec step runs the text
//! through the engine (execute or execute_mut, both go through cached_parse) and, on the same
//! fixed graph, through a fresh parse_query + executor of the exact text; both row sets, the
//! hit/miss counters' movement and the cache length are logged.  TLC decides.
use samyama::graph::GraphStore;
use samyama::query::{parse_query, MutQueryExecutor, QueryEngine, QueryExecutor, RecordBatch};
use serde_json::json;
use verif_harness::*;

/// the fixed graph the base queries of spec/QueryCache.tla are written against
pub fn fixed_graph() -> GraphStore {
    let mut st = GraphStore::new();
    let e = QueryEngine::new();
    for q in [
        "CREATE (a:Person {name:'Al Ice', age:30})-[:KNOWS {w:1}]->(b:Person {name:'Bob', age:25})",
        "CREATE (c:City {name:'a b'})",
        "CREATE (p:Person {name:'Al  Ice', age:31})",
    ] {
        e.execute_mut(q, &mut st, "default").expect("fixed graph");
    }
    st
}

fn rows(r: Result<Result<RecordBatch, String>, String>) -> String {
    match r {
        Err(p) => format!("PANIC {p}"),
        // error texts are not part of the property: an error is an error
        Ok(Err(_)) => "ERR".to_string(),
        Ok(Ok(b)) => {
            let mut s = format!("{:?}", b.columns);
            for rec in &b.records {
                s.push_str(" | ");
                for c in &b.columns {
                    s.push_str(&format!("{:?},", rec.get(c)));
                }
            }
            s
        }
    }
}

fn run(scripts: &str, trace: &str, _opts: &Opts) -> Res<()> {
    let scripts = read_scripts(scripts)?;
    let mut tr = Trace::create(trace)?;
    std::panic::set_hook(Box::new(|_| {}));
    for s in &scripts {
        tr.reset(&s.sid)?;
        let mut store = fixed_graph();
        let mut engine: Option<QueryEngine> = None;
        for step in &s.steps {
            match gs(step, "op") {
                "Open" => {
                    engine = Some(QueryEngine::with_capacity(gi(step, "cap") as usize));
                    tr.emit(event_from(step, json!({"obs": {"len": 0}})))?;
                }
                "Exec" => {
                    let e = engine.as_ref().expect("Exec before Open");
                    let text = gs(step, "text");
                    let mutp = gs(step, "path") == "mut";
                    let (h0, m0) = (e.cache_stats().hits(), e.cache_stats().misses());
                    let cached = if mutp {
                        rows(catch(|| e.execute_mut(text, &mut store, "default").map_err(|x| x.to_string())))
                    } else {
                        rows(catch(|| e.execute(text, &store).map_err(|x| x.to_string())))
                    };
                    let (dh, dm) = (e.cache_stats().hits() - h0, e.cache_stats().misses() - m0);
                    let len = e.cache_len();
                    let ast = catch(|| parse_query(text).map_err(|x| x.to_string()));
                    let parses = matches!(ast, Ok(Ok(_)));
                    let fresh = match ast {
                        Err(p) => format!("PANIC {p}"),
                        Ok(Err(_)) => "ERR".to_string(),
                        Ok(Ok(q)) => {
                            if mutp {
                                rows(catch(|| MutQueryExecutor::new(&mut store, "default".to_string()).execute(&q).map_err(|x| x.to_string())))
                            } else {
                                rows(catch(|| QueryExecutor::new(&store).execute(&q).map_err(|x| x.to_string())))
                            }
                        }
                    };
                    tr.emit(event_from(
                        step,
                        json!({"obs": {"cached": cached, "fresh": fresh, "hit": dh == 1 && dm == 0, "miss": dh == 0 && dm == 1,
                                        "parses": parses, "len": len}}),
                    ))?;
                }
                op => panic!("unknown op {op}"),
            }
        }
    }
    tr.finish()
}

fn main() {
    harness_main(run);
}
