//! C19: writes acknowledged through RESP GRAPH.QUERY or POST /api/query survive a restart.
//!
//! One server incarnation = the library calls of src/main.rs start_server, in its order:
//!   GraphStore::with_async_indexing, PersistenceManager::new(data_dir), recovery
//!   (list_persisted_tenants / recover / insert_recovered_node / insert_recovered_edge), the snapshot
//!   restore only when nothing was recovered, ONE Arc<RwLock<GraphStore>> shared by the RESP command
//!   handler (CommandHandler::new_with_tenants, what RespServer::new_with_tenants builds) and the HTTP
//!   router (HttpServer::new(..).with_data_path(..).with_tenant_manager(..).router()), start_indexer.
//! `Restart` drops the whole incarnation (runtime included, so RocksDB is closed) and boots a new one on
//! the same directory.  Every script gets a fresh temporary data directory.
//!
//! Each write step sends its statement text `q` through the front end `r`.  Logged: acknowledged or
//! not, the node / relationship ids in the reply rows, and the served graph: a dump through the
//! GraphStore API (ids, key, labels, p; relationships with endpoints and w) and three read queries sent
//! through the RESP handler (label scans of :A and :B, traversal of :T).
use samyama::graph::{GraphStore, PropertyValue};
use samyama::persistence::PersistenceManager;
use samyama::protocol::command::CommandHandler;
use samyama::protocol::resp::RespValue;
use serde_json::{json, Value};
use std::sync::Arc;
use tokio::sync::RwLock;
use verif_harness::*;

struct Inc {
    rt: tokio::runtime::Runtime,
    store: Arc<RwLock<GraphStore>>,
    handler: CommandHandler,
    router: axum::Router,
    persistent: bool,
    recovered: bool,
}

fn boot(path: &str) -> Inc {
    let rt = rt();
    let (mut graph, rx) = GraphStore::with_async_indexing();
    // Initialize persistence FIRST
    let persistence = match PersistenceManager::new(path) {
        Ok(pm) => Some(Arc::new(pm)),
        Err(_) => None,
    };
    // Recover persisted data from RocksDB
    let mut recovered = false;
    if let Some(ref pm) = persistence {
        if let Ok(tenants) = pm.list_persisted_tenants() {
            for tenant in &tenants {
                if let Ok((nodes, edges)) = pm.recover(tenant) {
                    for node in nodes {
                        graph.insert_recovered_node(node);
                    }
                    for edge in edges {
                        let _ = graph.insert_recovered_edge(edge);
                    }
                    recovered = true;
                }
            }
        }
    }
    // HA-08: snapshot replay only when no RocksDB recovery happened
    if !recovered {
        let _ = samyama::snapshot::persist::restore_persisted_snapshots(path, &mut graph);
    }
    let store = Arc::new(RwLock::new(graph));
    let shared_tenants = persistence
        .as_ref()
        .map(|pm| pm.tenants_arc())
        .unwrap_or_else(|| Arc::new(samyama::persistence::TenantManager::new()));
    if let Some(ref pm) = persistence {
        rt.block_on(async { pm.start_indexer(&*store.read().await, rx) });
    }
    let router = samyama::http::HttpServer::new(Arc::clone(&store), 0)
        .with_data_path(Some(path.to_string()))
        .with_tenant_manager(Arc::clone(&shared_tenants))
        .router();
    let persistent = persistence.is_some();
    let handler = CommandHandler::new_with_tenants(persistence, shared_tenants);
    Inc { rt, store, handler, router, persistent, recovered }
}

fn bulk(s: &str) -> RespValue {
    RespValue::BulkString(Some(s.as_bytes().to_vec()))
}

fn resp_query(inc: &Inc, q: &str) -> Result<RespValue, String> {
    let cmd = RespValue::Array(vec![bulk("GRAPH.QUERY"), bulk("default"), bulk(q)]);
    catch(|| inc.rt.block_on(inc.handler.handle_command(&cmd, &inc.store)))
}

fn http_query(inc: &Inc, q: &str) -> Result<(u16, Value), String> {
    use http_body_util::BodyExt;
    use tower::ServiceExt;
    let req = axum::http::Request::builder()
        .method("POST")
        .uri("/api/query")
        .header("content-type", "application/json")
        .body(axum::body::Body::from(json!({"query": q}).to_string()))
        .unwrap();
    let router = inc.router.clone();
    catch(|| {
        inc.rt.block_on(async {
            let r = router.oneshot(req).await.unwrap();
            let st = r.status().as_u16();
            let b = r.into_body().collect().await.unwrap().to_bytes();
            (st, serde_json::from_slice::<Value>(&b).unwrap_or(Value::Null))
        })
    })
}

fn digits_after(s: &str, open: &str) -> Option<i64> {
    let i = s.find(open)? + open.len();
    let d: String = s[i..].chars().take_while(|c| c.is_ascii_digit()).collect();
    d.parse().ok()
}

/// (acknowledged, node ids in the rows, relationship ids in the rows)
fn send(inc: &Inc, r: &str, q: &str) -> (String, Vec<i64>, Vec<i64>) {
    let (mut ns, mut es) = (Vec::new(), Vec::new());
    let ack = if r == "resp" {
        match resp_query(inc, q) {
            Err(_) => "panic",
            Ok(RespValue::Error(_)) => "refused",
            Ok(RespValue::Array(a)) => {
                for row in a.iter().skip(1) {
                    if let RespValue::Array(cs) = row {
                        for c in cs {
                            if let RespValue::BulkString(Some(b)) = c {
                                let s = String::from_utf8_lossy(b);
                                if s.starts_with("Node(NodeId(") {
                                    ns.extend(digits_after(&s, "NodeId("));
                                } else if s.starts_with("Edge(EdgeId(") {
                                    es.extend(digits_after(&s, "EdgeId("));
                                }
                            }
                        }
                    }
                }
                "ok"
            }
            Ok(_) => "other",
        }
    } else {
        match http_query(inc, q) {
            Err(_) => "panic",
            Ok((200, body)) if body["records"].is_array() => {
                for row in body["records"].as_array().unwrap() {
                    for c in row.as_array().cloned().unwrap_or_default() {
                        if let Some(o) = c.as_object() {
                            let id = o.get("id").and_then(|v| v.as_str()).and_then(|s| s.parse::<i64>().ok());
                            if o.contains_key("labels") {
                                ns.extend(id);
                            } else if o.contains_key("source") {
                                es.extend(id);
                            }
                        }
                    }
                }
                "ok"
            }
            Ok((400, body)) if body["error"].is_string() => "refused",
            Ok(_) => "other",
        }
    };
    ns.sort();
    es.sort();
    (ack.to_string(), ns, es)
}

fn int_prop(m: &std::collections::HashMap<String, PropertyValue>, k: &str) -> i64 {
    match m.get(k) {
        None | Some(PropertyValue::Null) => 0,
        Some(PropertyValue::Integer(i)) => *i,
        Some(_) => -1,
    }
}

/// rows of integers of a read query sent through the RESP handler (the serving path)
fn served_rows(inc: &Inc, q: &str) -> Value {
    match resp_query(inc, q) {
        Ok(RespValue::Array(a)) => {
            let mut rows: Vec<Vec<i64>> = a
                .iter()
                .skip(1)
                .map(|row| match row {
                    RespValue::Array(cs) => cs
                        .iter()
                        .map(|c| match c {
                            RespValue::Integer(i) => *i,
                            RespValue::Null | RespValue::BulkString(None) => 0,
                            _ => -1,
                        })
                        .collect(),
                    _ => vec![-1],
                })
                .collect();
            rows.sort();
            json!(rows)
        }
        Ok(other) => json!([[format!("{other:?}")]]),
        Err(m) => json!([[format!("panic {m}")]]),
    }
}

fn dump(inc: &Inc) -> Value {
    let (nodes, rels) = {
        let st = inc.rt.block_on(inc.store.read());
        let mut nodes: Vec<(i64, i64, Vec<String>, i64)> = st
            .all_nodes()
            .iter()
            .map(|n| {
                let props = st.node_properties_full(n.id);
                let mut ls: Vec<String> = n.labels.iter().map(|l| l.as_str().to_string()).collect();
                ls.sort();
                (n.id.as_u64() as i64, int_prop(&props, "k"), ls, int_prop(&props, "p"))
            })
            .collect();
        nodes.sort();
        let mut rels: Vec<(i64, i64, i64, i64)> = st
            .all_edges()
            .iter()
            .map(|e| {
                let w = match e.properties.get("w") {
                    None | Some(PropertyValue::Null) => 0,
                    Some(PropertyValue::Integer(i)) => *i,
                    Some(_) => -1,
                };
                (e.id.as_u64() as i64, e.source.as_u64() as i64, e.target.as_u64() as i64, w)
            })
            .collect();
        rels.sort();
        (nodes, rels)
    };
    json!({
        "nodes": nodes.iter().map(|(i, k, l, p)| json!([i, k, l, p])).collect::<Vec<_>>(),
        "rels": rels.iter().map(|(e, s, t, w)| json!([e, s, t, w])).collect::<Vec<_>>(),
        "byA": served_rows(inc, "MATCH (n:A) RETURN id(n) AS i, n.k AS k"),
        "byB": served_rows(inc, "MATCH (n:B) RETURN id(n) AS i, n.k AS k"),
        "pairs": served_rows(inc, "MATCH (a)-[r:T]->(b) RETURN a.k AS x, b.k AS y"),
    })
}

fn run(scripts: &str, trace: &str, _opts: &Opts) -> Res<()> {
    let scripts = read_scripts(scripts)?;
    let mut tr = Trace::create(trace)?;
    std::panic::set_hook(Box::new(|_| {}));
    for s in &scripts {
        tr.reset(&s.sid)?;
        let dir = tempfile::tempdir()?;
        let path = dir.path().to_str().unwrap().to_string();
        let mut inc = Some(boot(&path));
        for step in &s.steps {
            let op = gs(step, "op");
            if op == "Restart" {
                // drop everything of this incarnation: router, handler (persistence), store, then the runtime
                let old = inc.take().unwrap();
                let Inc { rt, store, handler, router, .. } = old;
                drop(router);
                drop(handler);
                drop(store);
                drop(rt);
                let new = boot(&path);
                let mut d = dump(&new);
                d["persistent"] = json!(new.persistent);
                d["recovered"] = json!(new.recovered);
                inc = Some(new);
                tr.emit(event_from(step, json!({"obs": d})))?;
            } else {
                let i = inc.as_ref().unwrap();
                let (ack, ns, es) = send(i, gs(step, "r"), gs(step, "q"));
                let mut d = dump(i);
                d["ack"] = json!(ack);
                d["retn"] = json!(ns);
                d["rete"] = json!(es);
                tr.emit(event_from(step, json!({"obs": d})))?;
            }
        }
        drop(inc);
    }
    tr.finish()
}

fn main() {
    harness_main(run);
}
