//! temporary probe (FRONT builder) - deleted before hand-over
use samyama::graph::GraphStore;
use samyama::query::{parse_query, MutQueryExecutor, QueryEngine, QueryExecutor, RecordBatch};
use std::sync::{Arc, Mutex};
use verif_harness::*;

fn fmt_batch(r: Result<RecordBatch, String>) -> String {
    match r {
        Err(e) => format!("ERR {e}"),
        Ok(b) => {
            let mut s = format!("{:?}", b.columns);
            for rec in &b.records {
                s.push_str(" | ");
                for c in &b.columns {
                    s.push_str(&format!("{:?},", rec.get(c)));
                }
            }
            s
        }
    }
}

fn graph() -> GraphStore {
    let mut st = GraphStore::new();
    let e = QueryEngine::new();
    for q in [
        "CREATE (a:Person {name:'Al Ice', age:30})-[:KNOWS {w:1}]->(b:Person {name:'Bob', age:25})",
        "CREATE (c:City {name:'a b'})",
        "CREATE INDEX ON :Person(name)",
        "CREATE CONSTRAINT ON (c:City) ASSERT c.name IS UNIQUE",
    ] {
        let r = e.execute_mut(q, &mut st, "default").map_err(|e| e.to_string());
        println!("setup {q} -> {}", fmt_batch(r));
    }
    st
}

fn dump(st: &GraphStore) -> String {
    let mut ns: Vec<String> = st
        .all_nodes()
        .iter()
        .map(|n| {
            let mut ls: Vec<String> = n.labels.iter().map(|l| l.as_str().to_string()).collect();
            ls.sort();
            let mut ps: Vec<String> = st.node_properties_full(n.id).iter().map(|(k, v)| format!("{k}={v:?}")).collect();
            ps.sort();
            format!("N{:?}{:?}{:?}", n.id, ls, ps)
        })
        .collect();
    ns.sort();
    let mut es: Vec<String> = st
        .all_edges()
        .iter()
        .map(|e| {
            let mut ps: Vec<String> = e.properties.iter().map(|(k, v)| format!("{k}={v:?}")).collect();
            ps.sort();
            format!("E{:?}:{:?}->{:?}:{:?}{:?}", e.id, e.source, e.target, e.edge_type, ps)
        })
        .collect();
    es.sort();
    let mut out = format!("{ns:?} {es:?}");
    for q in ["SHOW INDEXES", "SHOW CONSTRAINTS", "SHOW HIERARCHY INDEXES"] {
        let r = parse_query(q).map_err(|e| e.to_string()).and_then(|ast| QueryExecutor::new(st).execute(&ast).map_err(|e| e.to_string()));
        let mut rows: Vec<String> = match r {
            Ok(b) => b.records.iter().map(|rec| b.columns.iter().map(|c| format!("{:?}", rec.get(c))).collect::<Vec<_>>().join(",")).collect(),
            Err(e) => vec![format!("ERR {e}")],
        };
        rows.sort();
        out.push_str(&format!(" {q}:{rows:?}"));
    }
    out
}

fn main() {
    let what = std::env::args().nth(1).unwrap_or_default();
    if what == "cache" {
        let st = graph();
        let e = QueryEngine::with_capacity(2);
        for q in [
            "RETURN 'a b' AS x",
            "RETURN 'a  b' AS x",
            "RETURN 'a\tb' AS x",
            "RETURN \"a b\" AS x",
            "return 'a b' as x",
            "RETURN 1 //c\n + 1 AS x",
            "RETURN 1 //c + 1 AS x",
            "RETURN 1 /*c*/ + 1 AS x",
            "MATCH (n:Person) WHERE n.name = 'Al Ice' RETURN n.name AS x",
            "MATCH (n:Person) WHERE n.name = 'Al  Ice' RETURN n.name AS x",
            "MATCH (n:person) WHERE n.name = 'Al Ice' RETURN n.name AS x",
            "MATCH (`n`:Person) RETURN n.name AS x",
            "MATCH (n:Person) RETURN n.name AS x ORDER BY x",
            "MATCH(n:Person)RETURN n.name AS x ORDER BY x",
            "  MATCH (n:Person) RETURN n.name AS x ORDER BY x  ",
            "MATCH (n:Person) RETURN count(n) AS x",
        ] {
            let (h0, m0) = (e.cache_stats().hits(), e.cache_stats().misses());
            let c = catch(|| e.execute(q, &st).map_err(|e| e.to_string()));
            let c2 = catch(|| {
                let mut s2 = graph_quiet();
                e.execute_mut(q, &mut s2, "default").map_err(|e| e.to_string())
            });
            let f = catch(|| parse_query(q).map_err(|e| e.to_string()).and_then(|ast| QueryExecutor::new(&st).execute(&ast).map_err(|e| e.to_string())));
            println!(
                "{q:?}\n   cached={}\n   cachedmut={}\n   fresh ={}\n   hit+{} miss+{} len={}",
                c.map(fmt_batch).unwrap_or_else(|p| format!("PANIC {p}")),
                c2.map(fmt_batch).unwrap_or_else(|p| format!("PANIC {p}")),
                f.map(fmt_batch).unwrap_or_else(|p| format!("PANIC {p}")),
                e.cache_stats().hits() - h0,
                e.cache_stats().misses() - m0,
                e.cache_len()
            );
        }
    }
    if what == "dump" {
        let mut st = graph();
        println!("{}", dump(&st));
        let e = QueryEngine::new();
        for q in std::env::args().skip(2) {
            let mut s2 = graph_quiet();
            let before = dump(&s2);
            let r = catch(|| e.execute_mut(&q, &mut s2, "default").map_err(|e| e.to_string()));
            let after = dump(&s2);
            println!("{q:?} -> {} mutated={}", r.map(fmt_batch).unwrap_or_else(|p| format!("PANIC {p}")), before != after);
        }
        let _ = &mut st;
    }
    if what == "parse" {
        std::panic::set_hook(Box::new(|_| {}));
        for q in std::env::args().skip(2) {
            let r = catch(|| parse_query(&q));
            match r {
                Err(p) => println!("{q:?} -> PANIC {p}"),
                Ok(Err(e)) => println!("{q:?} -> ERR {}", e.to_string().lines().next().unwrap_or("")),
                Ok(Ok(ast)) => {
                    let lens: Vec<String> = ast
                        .match_clauses
                        .iter()
                        .flat_map(|m| m.pattern.paths.iter())
                        .flat_map(|p| p.segments.iter())
                        .map(|s| format!("{:?}", s.edge.length))
                        .collect();
                    println!(
                        "{q:?} -> OK skip={:?} limit={:?} lens={:?} with={:?} ret={:?}",
                        ast.skip,
                        ast.limit,
                        lens,
                        ast.with_clause.as_ref().map(|w| (w.skip, w.limit)),
                        ast.return_clause.as_ref().map(|r| r.items.iter().map(|i| format!("{:?}", i.expression)).collect::<Vec<_>>())
                    );
                }
            }
        }
    }
    if what == "nlq" {
        use axum::{routing::post, Json, Router};
        let rt = tokio::runtime::Builder::new_multi_thread().worker_threads(2).enable_all().build().unwrap();
        let reply: Arc<Mutex<String>> = Arc::new(Mutex::new(String::new()));
        let r2 = reply.clone();
        let port = rt.block_on(async move {
            let app = Router::new().route(
                "/api/generate",
                post(move |Json(_b): Json<serde_json::Value>| {
                    let r = r2.clone();
                    async move { Json(serde_json::json!({"response": r.lock().unwrap().clone()})) }
                }),
            );
            let l = tokio::net::TcpListener::bind("127.0.0.1:0").await.unwrap();
            let port = l.local_addr().unwrap().port();
            tokio::spawn(async move { axum::serve(l, app).await.unwrap() });
            port
        });
        std::env::set_var("NLQ_PROVIDER", "ollama");
        std::env::set_var("NLQ_API_BASE_URL", format!("http://127.0.0.1:{port}"));
        std::env::set_var("NLQ_MODEL", "mock");
        let store = Arc::new(tokio::sync::RwLock::new(graph()));
        let router = samyama::http::HttpServer::new(store, 0).router();
        use samyama::nlq::NLQPipeline;
        use samyama::persistence::tenant::{LLMProvider, NLQConfig};
        let pipe = NLQPipeline::new(NLQConfig {
            enabled: true,
            provider: LLMProvider::Ollama,
            model: "mock".into(),
            api_key: None,
            api_base_url: Some(format!("http://127.0.0.1:{port}")),
            system_prompt: None,
        })
        .unwrap();
        let t0 = std::time::Instant::now();
        let mut n = 0;
        for resp in std::env::args().skip(2) {
            let resp = resp.replace("\\n", "\n").replace("\\t", "\t");
            *reply.lock().unwrap() = resp.clone();
            for _ in 0..50 {
                n += 1;
                let _ = rt.block_on(pipe.text_to_cypher("q", "schema"));
            }
            let direct = rt.block_on(pipe.text_to_cypher("q", "schema"));
            use tower::ServiceExt;
            let req = axum::http::Request::builder()
                .method("POST")
                .uri("/api/nlq")
                .header("content-type", "application/json")
                .body(axum::body::Body::from(serde_json::json!({"question":"q"}).to_string()))
                .unwrap();
            let (status, body) = rt.block_on(async {
                let r = router.clone().oneshot(req).await.unwrap();
                let st = r.status();
                use http_body_util::BodyExt;
                let b = r.into_body().collect().await.unwrap().to_bytes();
                (st, String::from_utf8_lossy(&b).to_string())
            });
            println!("{resp:?}\n   direct={direct:?}\n   http={status} {body}");
        }
        println!("{} direct calls in {:?}", n, t0.elapsed());
        let t0 = std::time::Instant::now();
        for _ in 0..50 {
            use tower::ServiceExt;
            let req = axum::http::Request::builder()
                .method("POST")
                .uri("/api/nlq")
                .header("content-type", "application/json")
                .body(axum::body::Body::from(serde_json::json!({"question":"q"}).to_string()))
                .unwrap();
            rt.block_on(async {
                let _ = router.clone().oneshot(req).await.unwrap();
            });
        }
        println!("50 http calls in {:?}", t0.elapsed());
    }
}

fn graph_quiet() -> GraphStore {
    let mut st = GraphStore::new();
    let e = QueryEngine::new();
    for q in [
        "CREATE (a:Person {name:'Al Ice', age:30})-[:KNOWS {w:1}]->(b:Person {name:'Bob', age:25})",
        "CREATE (c:City {name:'a b'})",
        "CREATE INDEX ON :Person(name)",
        "CREATE CONSTRAINT ON (c:City) ASSERT c.name IS UNIQUE",
    ] {
        e.execute_mut(q, &mut st, "default").unwrap();
    }
    let _ = MutQueryExecutor::new(&mut st, "default".to_string());
    st
}
