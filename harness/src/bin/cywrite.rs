//! C04 / C05 / C11: write statements through the real query engine (src/query/mod.rs QueryEngine::execute_mut),
//! full graph dump through the GraphStore API plus index / constraint probes through the engine.
//!
//! Script steps:
//!   {"op":"Stmt","st":<statement AST, see spec/CypherWrite.tla>}   rendered to Cypher text by `render`
//!   {"op":"Raw","q":"<cypher>"}                                       exploration only
//! Trace event: the step + {"text": rendered, "res":"ok"|"err"|"panic", "err": message, "rows":[[tok..]..], "obs":{..}}
use samyama::graph::{EdgeId, GraphStore, NodeId, PropertyValue};
use samyama::query::executor::record::Value as QV;
use samyama::query::QueryEngine;
use serde_json::{json, Map, Value};
use verif_harness::*;

const KEYS: [&str; 2] = ["k", "p"];
const LABELS: [&str; 2] = ["A", "B"];

fn tok(v: Option<&PropertyValue>) -> String {
    match v {
        None | Some(PropertyValue::Null) => "null".to_string(),
        Some(PropertyValue::Integer(i)) => format!("i{i}"),
        Some(PropertyValue::String(s)) => format!("s{s}"),
        Some(PropertyValue::Boolean(b)) => format!("b{b}"),
        Some(PropertyValue::Float(f)) => format!("f{f}"),
        Some(other) => format!("?{other:?}"),
    }
}

fn qtok(v: &QV) -> String {
    match v {
        QV::Property(p) => tok(Some(p)),
        QV::Null => "null".to_string(),
        QV::Node(id, _) | QV::NodeRef(id) => format!("n{}", id.as_u64()),
        QV::Edge(id, _) | QV::EdgeRef(id, ..) => format!("e{}", id.as_u64()),
        other => format!("?{other:?}"),
    }
}

fn val_of(t: &str) -> PropertyValue {
    if let Some(i) = t.strip_prefix('i') {
        PropertyValue::Integer(i.parse().unwrap())
    } else if let Some(s) = t.strip_prefix('s') {
        PropertyValue::String(s.to_string())
    } else {
        PropertyValue::Null
    }
}

/// Cypher literal of a value token ("i1", "sa", "null")
fn lit(t: &str) -> String {
    if t == "null" {
        "null".to_string()
    } else if let Some(i) = t.strip_prefix('i') {
        i.to_string()
    } else if let Some(f) = t.strip_prefix('f') {
        // Float token: "f2" is 2.0 (the same text the dump produces for a stored Float)
        if f.contains('.') { f.to_string() } else { format!("{f}.0") }
    } else if let Some(s) = t.strip_prefix('s') {
        format!("'{s}'")
    } else {
        panic!("bad value token {t}")
    }
}

fn expr(e: &Value) -> String {
    match gs(e, "e") {
        "lit" => lit(gs(e, "v")),
        "x" => "x".to_string(),
        "div" => format!("{} / x", lit(gs(e, "v"))),      // v / x
        "mul" => format!("x * {}", lit(gs(e, "v"))),      // x * v
        "prop" => format!("n.{}", gs(e, "key")),          // n.key
        "propadd" => format!("n.{} + {}", gs(e, "key"), lit(gs(e, "v"))),
        "divprop" => format!("{} / n.{}", lit(gs(e, "v")), gs(e, "key")),
        "divlit" => format!("{} / {}", lit(gs(e, "v")), lit(gs(e, "w"))),
        other => panic!("bad expression kind {other}"),
    }
}

/// `{k: <e>, p: <e>}` from a record {k: expr|absent, p: ...}; absent entries ([e |-> "none"]) are left out
fn props(m: &Value) -> String {
    let mut parts = Vec::new();
    for key in KEYS {
        if let Some(e) = m.get(key) {
            if gs(e, "e") != "none" {
                parts.push(format!("{key}: {}", expr(e)));
            }
        }
    }
    if parts.is_empty() {
        String::new()
    } else {
        format!(" {{{}}}", parts.join(", "))
    }
}

fn labels(ls: &Value) -> String {
    ls.as_array().unwrap().iter().map(|l| format!(":{}", l.as_str().unwrap())).collect::<String>()
}

fn node_pat(var: &str, n: &Value) -> String {
    format!("({var}{}{})", labels(&n["labels"]), props(&n["props"]))
}

/// MATCH / UNWIND prefix of a statement
fn source(s: &Value) -> String {
    match gs(s, "kind") {
        "none" => String::new(),
        "match" => format!("MATCH {} ", node_pat("n", &s["n"])),
        "matchwith" => format!("MATCH {} WITH n ", node_pat("n", &s["n"])),
        "match2" => format!("MATCH {}, {} ", node_pat("n", &s["n"]), node_pat("m", &s["m"])),
        "matchrel" => format!("MATCH {}-[r:{}]->{} ", node_pat("n", &s["n"]), gs(s, "t"), node_pat("m", &s["m"])),
        "unwind" => {
            let items: Vec<String> = s["list"].as_array().unwrap().iter().map(|v| lit(v.as_str().unwrap())).collect();
            format!("UNWIND [{}] AS x ", items.join(", "))
        }
        other => panic!("bad source kind {other}"),
    }
}

fn set_items(items: &Value) -> String {
    let v: Vec<String> = items
        .as_array()
        .unwrap()
        .iter()
        .map(|it| match gs(it, "kind") {
            "prop" => format!("n.{} = {}", gs(it, "key"), expr(&it["val"])),
            "map" => format!("n +={}", props(&it["props"])),
            "label" => format!("n:{}", gs(it, "label")),
            other => panic!("bad set item {other}"),
        })
        .collect();
    v.join(", ")
}

fn write_clause(w: &Value) -> String {
    match gs(w, "kind") {
        "create" => format!("CREATE {}", node_pat("c", &w["n"])),
        // CREATE (a)-[:T {p: ..}]->(b): each end is either a bound variable ("n"/"m") or a new node pattern
        "createrel" => {
            let end = |e: &Value, fresh: &str| -> String {
                if gs(e, "kind") == "var" {
                    format!("({})", gs(e, "var"))
                } else {
                    node_pat(fresh, &e["n"])
                }
            };
            format!("CREATE {}-[:{}{}]->{}", end(&w["src"], "c"), gs(w, "t"), props(&w["props"]), end(&w["dst"], "d"))
        }
        "merge" => {
            let mut s = format!("MERGE {}", node_pat("n", &w["n"]));
            if w["oncreate"].as_array().map_or(false, |a| !a.is_empty()) {
                s += &format!(" ON CREATE SET {}", set_items(&w["oncreate"]));
            }
            if w["onmatch"].as_array().map_or(false, |a| !a.is_empty()) {
                s += &format!(" ON MATCH SET {}", set_items(&w["onmatch"]));
            }
            s
        }
        // MERGE of a relationship between the two bound endpoints
        "mergerel" => format!("MERGE (n)-[r:{}]->(m)", gs(w, "t")),
        "set" => format!("SET {}", set_items(&w["items"])),
        "remove" => {
            let v: Vec<String> = w["items"]
                .as_array()
                .unwrap()
                .iter()
                .map(|it| match gs(it, "kind") {
                    "prop" => format!("n.{}", gs(it, "key")),
                    "label" => format!("n:{}", gs(it, "label")),
                    other => panic!("bad remove item {other}"),
                })
                .collect();
            format!("REMOVE {}", v.join(", "))
        }
        // plain / DETACH DELETE naming several variables, in the given order
        "deletemany" => {
            let vs: Vec<&str> = w["vars"].as_array().unwrap().iter().map(|v| v.as_str().unwrap()).collect();
            format!("{}DELETE {}", if w["detach"].as_bool().unwrap() { "DETACH " } else { "" }, vs.join(", "))
        }
        "delete" => format!("{}DELETE {}", if w["detach"].as_bool().unwrap() { "DETACH " } else { "" }, gs(w, "var")),
        other => panic!("bad write kind {other}"),
    }
}

fn ret_clause(r: &Value) -> String {
    let items: Vec<String> = r.as_array().unwrap().iter().map(|e| expr_ret(e)).collect();
    if items.is_empty() {
        String::new()
    } else {
        format!(" RETURN {}", items.join(", "))
    }
}
fn expr_ret(e: &Value) -> String {
    match gs(e, "e") {
        "vprop" => format!("{}.{}", gs(e, "var"), gs(e, "key")),
        "x" => "x".to_string(),
        other => panic!("bad return item {other}"),
    }
}

/// statement AST -> Cypher text
fn render(st: &Value) -> String {
    match gs(st, "kind") {
        "constraint" => format!("CREATE CONSTRAINT ON (n:{}) ASSERT n.{} IS UNIQUE", gs(st, "label"), gs(st, "key")),
        "index" => format!("CREATE INDEX ON :{}({})", gs(st, "label"), gs(st, "key")),
        "write" => format!("{}{}{}", source(&st["src"]), write_clause(&st["w"]), ret_clause(&st["ret"])),
        other => panic!("bad statement kind {other}"),
    }
}

fn rows_of(engine: &QueryEngine, st: &GraphStore, q: &str) -> Value {
    match catch(|| engine.execute(q, st).map_err(|e| e.to_string())) {
        Ok(Ok(b)) => {
            let mut rows: Vec<Vec<String>> = b
                .records
                .iter()
                .map(|r| b.columns.iter().map(|c| r.get(c).map(qtok).unwrap_or_else(|| "null".into())).collect())
                .collect();
            rows.sort();
            json!(rows)
        }
        Ok(Err(e)) => json!([[format!("!err {e}")]]),
        Err(p) => json!([[format!("!panic {p}")]]),
    }
}

fn observe(st: &GraphStore, cap: u64, universe: &[String], probes_level: u64) -> Value {
    let with_probes = probes_level > 0;
    let mut nodes = Vec::new();
    let mut rels = Vec::new();
    for n in 1..=cap {
        let id = NodeId::new(n);
        if let Some(nd) = st.get_node(id) {
            let mut ls: Vec<String> = nd.labels.iter().map(|l| l.as_str().to_string()).collect();
            ls.sort();
            let full = st.node_properties_full(id);
            let (mut row, mut col) = (Map::new(), Map::new());
            for k in KEYS {
                row.insert(k.into(), json!(tok(nd.get_property(k))));
                col.insert(k.into(), json!(tok(full.get(k))));
            }
            let mut extra: Vec<String> = full.keys().filter(|k| !KEYS.contains(&k.as_str())).cloned().collect();
            extra.sort();
            let mut oe: Vec<u64> = st.get_outgoing_edges(id).iter().map(|e| e.id.as_u64()).collect();
            oe.sort();
            let mut ie: Vec<u64> = st.get_incoming_edges(id).iter().map(|e| e.id.as_u64()).collect();
            ie.sort();
            nodes.push(json!({"id": n, "labels": ls, "props": row, "full": col, "extra": extra, "out": oe, "in": ie, "has": st.has_node(id)}));
        }
    }
    for e in 1..=cap {
        let id = EdgeId::new(e);
        if let Some(x) = st.get_edge(id) {
            let mut pr = Map::new();
            for k in KEYS {
                pr.insert(k.into(), json!(tok(x.properties.get(k))));
            }
            rels.push(json!({"id": e, "s": x.source.as_u64(), "d": x.target.as_u64(), "t": x.edge_type.as_str(), "props": pr}));
        }
    }
    // probes: lookups of every value of the universe through the engine (index-backed when an index / constraint exists)
    // and through the label index API
    let engine = QueryEngine::new();
    let mut probes = Map::new();
    for l in LABELS.iter().filter(|_| with_probes) {
        let mut by: Vec<u64> = st.get_nodes_by_label(&samyama::graph::Label::new(*l)).iter().map(|n| n.id.as_u64()).collect();
        by.sort();
        probes.insert(format!("label:{l}"), json!(by));
        probes.insert(format!("scan:{l}"), rows_of(&engine, st, &format!("MATCH (n:{l}) RETURN id(n)")));
        for v in universe {
            if probes_level == 1 {
                // property lookups through the engine (index-backed as soon as an index / constraint on (l, k) exists)
                probes.insert(format!("eq:{l}:{v}"), rows_of(&engine, st, &format!("MATCH (n:{l} {{k: {}}}) RETURN id(n)", lit(v))));
                probes.insert(format!("where:{l}:{v}"), rows_of(&engine, st, &format!("MATCH (n:{l}) WHERE n.k = {} RETURN id(n)", lit(v))));
            }
            // the unique-constraint index itself: who is registered as the holder of v for :l(k)
            if st.property_index.has_unique_constraint(&samyama::graph::Label::new(*l), "k") {
                let holder = st.property_index.unique_constraint_holder(&samyama::graph::Label::new(*l), "k", &val_of(v));
                let hs: Vec<u64> = holder.iter().map(|h| h.as_u64()).collect();
                probes.insert(format!("cons:{l}:{v}"), json!(hs));
            }
        }
    }
    let mut cons: Vec<String> = st.property_index.list_constraints().iter().map(|(l, p)| format!("{}.{}", l.as_str(), p)).collect();
    cons.sort();
    let mut idx: Vec<String> = st.property_index.list_indexes().iter().map(|(l, p)| format!("{}.{}", l.as_str(), p)).collect();
    idx.sort();
    let mut o = json!({"nodes": nodes, "rels": rels, "constraints": cons, "indexes": idx, "universe": universe});
    if with_probes {
        o["probes"] = Value::Object(probes);
    }
    o
}

fn run(scripts: &str, trace: &str, opts: &Opts) -> Res<()> {
    let cap = opts.get_u64("cap", 12);
    let universe: Vec<String> = opts.get_str("universe", "i1,i2").split(',').map(|s| s.to_string()).collect();
    let verbose = opts.get_u64("verbose", 0) > 0;
    // probes=0 none | 1 label index + engine property lookups + constraint index | 2 label index + constraint index
    let with_probes = opts.get_u64("probes", 0);
    let scripts = read_scripts(scripts)?;
    let mut tr = Trace::create(trace)?;
    for s in &scripts {
        tr.reset(&s.sid)?;
        let mut st = GraphStore::new();
        let engine = QueryEngine::new();
        for step in &s.steps {
            let op = gs(step, "op");
            let text = match op {
                "Stmt" => render(&step["st"]),
                "Raw" => gs(step, "q").to_string(),
                _ => return Err(format!("unknown op {op}").into()),
            };
            let mut x = Map::new();
            x.insert("text".into(), json!(text));
            let r = catch(|| engine.execute_mut(&text, &mut st, "default").map_err(|e| e.to_string()));
            match r {
                Ok(Ok(b)) => {
                    x.insert("res".into(), json!("ok"));
                    let mut rows: Vec<Vec<String>> = b
                        .records
                        .iter()
                        .map(|r| b.columns.iter().map(|c| r.get(c).map(qtok).unwrap_or_else(|| "null".into())).collect())
                        .collect();
                    rows.sort();
                    x.insert("rows".into(), json!(rows));
                }
                Ok(Err(e)) => {
                    x.insert("res".into(), json!("err"));
                    x.insert("err".into(), json!(e));
                    x.insert("rows".into(), json!([]));
                }
                Err(p) => {
                    x.insert("res".into(), json!("panic"));
                    x.insert("err".into(), json!(p));
                    x.insert("rows".into(), json!([]));
                }
            }
            let obs = catch(|| observe(&st, cap, &universe, with_probes)).unwrap_or_else(|p| json!({"panic": p}));
            if verbose {
                eprintln!("{} => {} {}\n   {}", text, x["res"], x.get("err").cloned().unwrap_or(json!("")), obs);
            }
            x.insert("obs".into(), obs);
            tr.emit(event_from(step, Value::Object(x)))?;
        }
    }
    tr.finish()
}

fn main() {
    std::panic::set_hook(Box::new(|_| {}));
    harness_main(run);
}
