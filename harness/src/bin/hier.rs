//! C28: hierarchy index (src/index/hierarchy/*, hierarchy_detector.rs, hierarchy_ops.rs).
//!
//! layer=api    Poset::from_edges + OehIndex::build / build_forced + set_measure + update_measure
//! layer=store  GraphStore + HierarchyIndexManager through Cypher DDL and store writes, with a TWIN
//!              store that never declares the index: every query is run on both and both row bags logged
//! Script steps (TLC-generated, nodes are 1..n):
//!   Graph{n,cover[[c,p]],meas[..]} Build{enc} UpdateMeasure{node,v} AddEdge{c,p} DelEdge{c,p} Rebuild
//! or {"sid","random":{"seed","n","shape","updates"}}: a seeded random tree / near-tree / low-width DAG
//! with certificate-style observations (thorough tier).
//! Measures are integers counting HALVES: even -> Integer(v/2), odd -> Float(v/2).
//! Nothing is judged here: TLC (Hierarchy_Trace.tla) compares every logged answer with brute force.
use rand::rngs::StdRng;
use rand::{Rng, SeedableRng};
use samyama::graph::{EdgeId, GraphStore, Label, NodeId, PropertyMap, PropertyValue};
use samyama::index::hierarchy::{Encoding, OehIndex, Poset, RollupOp, RollupValue};
use samyama::query::QueryEngine;
use samyama::query::Value as QV;
use serde_json::{json, Value};
use std::collections::{BTreeMap, BTreeSet, HashMap};
use verif_harness::*;

const T: &str = "default";
const NOM: i64 = -1_000_000; // Hierarchy!NoM: "no measure" / null
const UNAVAILABLE: i64 = -2_000_001; // the index has no structure for the monoid
const NOT_A_HALF: i64 = -2_000_002; // a number that is not a multiple of 1/2, or not a number at all (never correct)
const OPS: [(RollupOp, &str); 4] = [(RollupOp::Sum, "sum"), (RollupOp::Count, "count"), (RollupOp::Min, "min"), (RollupOp::Max, "max")];

fn nid(i: i64) -> NodeId {
    NodeId::new(100 + 7 * i as u64) // sparse, not dense: the index must translate
}
fn halves_to_rollup(v: &Value) -> Option<RollupValue> {
    let h = v.as_i64().filter(|h| *h != NOM)?;
    Some(if h % 2 == 0 { RollupValue::Int((h / 2) as i128) } else { RollupValue::Float(h as f64 / 2.0) })
}
fn halves_to_prop(v: &Value) -> Option<PropertyValue> {
    let h = v.as_i64().filter(|h| *h != NOM)?;
    Some(if h % 2 == 0 { PropertyValue::Integer(h / 2) } else { PropertyValue::Float(h as f64 / 2.0) })
}
fn f_to_halves(f: f64) -> Value {
    let d = f * 2.0;
    if d.fract() == 0.0 && d.abs() < 1e9 { json!(d as i64) } else { json!(NOT_A_HALF) }
}
fn rollup_to_halves(v: RollupValue) -> Value {
    match v {
        RollupValue::Int(i) => json!((i * 2) as i64),
        RollupValue::Float(f) => f_to_halves(f),
        RollupValue::Null => json!(NOM),
    }
}
fn prop_to_halves(v: &PropertyValue) -> Value {
    match v {
        PropertyValue::Integer(i) => json!(i * 2),
        PropertyValue::Float(f) => f_to_halves(*f),
        PropertyValue::Null => json!(NOM),
        _ => json!(NOT_A_HALF),
    }
}
fn enc_name(e: Encoding) -> &'static str {
    e.name()
}

/// everything the index can be asked, for node handles 1..n
fn ask_all(ix: &OehIndex, n: i64, id_of: &dyn Fn(i64) -> NodeId) -> Value {
    let p = ix.poset();
    let h_of: HashMap<NodeId, i64> = (1..=n).map(|h| (id_of(h), h)).collect();
    let inside: Vec<i64> = (1..=n).filter(|h| p.idx(id_of(*h)).is_some()).collect();
    let (mut sub, mut desc, mut lca, mut roll) = (vec![], vec![], vec![], vec![]);
    for &y in &inside {
        let yi = p.idx(id_of(y)).unwrap();
        let mut d: Vec<i64> = ix.descendants(yi).into_iter().map(|i| h_of[&p.node_at(i)]).collect();
        d.sort();
        desc.push(json!([y, d]));
        for (op, name) in OPS {
            let v = match ix.rollup_id(id_of(y), op) { Some(v) => rollup_to_halves(v), None => json!(UNAVAILABLE) };
            roll.push(json!([y, name, v]));
        }
        for &x in &inside {
            sub.push(json!([x, y, ix.subsumes_ids(id_of(x), id_of(y)).unwrap()]));
            let mut l: Vec<i64> = ix.lowest_common_ancestors_ids(id_of(x), id_of(y)).unwrap().into_iter().map(|i| h_of[&i]).collect();
            l.sort();
            lca.push(json!([x, y, l]));
        }
    }
    json!({"nodes": inside, "sub": sub, "desc": desc, "lca": lca, "roll": roll})
}

// ------------------------------------------------------------------------------------ api layer
fn run_api(s: &Script, tr: &mut Trace) -> Res<()> {
    tr.reset(&format!("{}@api", s.sid))?;
    let mut n = 0i64;
    let mut edges: Vec<(i64, i64)> = vec![];
    let mut meas: Vec<Value> = vec![];
    let mut ix: Option<OehIndex> = None;
    for step in &s.steps {
        let op = gs(step, "op");
        let mut ev = event_from(step, json!({"res": "ok", "layer": "api"}));
        match op {
            "Graph" => {
                n = gi(step, "n");
                edges = step["cover"].as_array().map(|a| a.iter().map(|e| (e[0].as_i64().unwrap(), e[1].as_i64().unwrap())).collect()).unwrap_or_default();
                meas = step["meas"].as_array().cloned().unwrap_or_default();
                ix = None;
            }
            "Build" => {
                let enc = gs(step, "enc");
                let built = catch(|| {
                    let p = Poset::from_edges(edges.iter().map(|(c, p)| (nid(*c), nid(*p))), (1..=n).map(nid)).map_err(|e| e.to_string())?;
                    let mut i = match enc {
                        "auto" => OehIndex::build(p),
                        "nested-set" => OehIndex::build_forced(p, Encoding::NestedSet),
                        "near-tree" => OehIndex::build_forced(p, Encoding::NearTree),
                        "chain" => OehIndex::build_forced(p, Encoding::Chain),
                        _ => panic!("enc {enc}"),
                    }.map_err(|e| e.to_string())?;
                    let vals: Vec<Option<RollupValue>> = i.poset().node_ids().iter().map(|id| {
                        let h = (id.as_u64() - 100) / 7;
                        halves_to_rollup(&meas[h as usize - 1])
                    }).collect();
                    i.set_measure(vals, &[RollupOp::Sum, RollupOp::Count, RollupOp::Min, RollupOp::Max]);
                    Ok::<OehIndex, String>(i)
                });
                match built {
                    Ok(Ok(i)) => {
                        ev["got"] = json!(enc_name(i.encoding()));
                        ev["nodes"] = json!((1..=n).filter(|h| i.poset().idx(nid(*h)).is_some()).collect::<Vec<_>>());
                        ix = Some(i);
                    }
                    Ok(Err(e)) => { ev["res"] = json!("err"); ev["msg"] = json!(e); }
                    Err(p) => { ev["res"] = json!("panic"); ev["msg"] = json!(p); }
                }
            }
            "UpdateMeasure" => {
                let h = gi(step, "node");
                let v = step["v"].clone();
                meas[h as usize - 1] = v.clone();
                if let Some(i) = ix.as_mut() {
                    match catch(|| i.update_measure(nid(h), halves_to_rollup(&v))) {
                        Ok(true) => {}
                        Ok(false) => ev["res"] = json!("stale"),
                        Err(p) => { ev["res"] = json!("panic"); ev["msg"] = json!(p); }
                    }
                }
            }
            _ => panic!("api layer cannot run {op}"),
        }
        let dead = ev["res"] == "panic" || ev["res"] == "err";
        let usable = ix.is_some() && ev["res"] == "ok";
        let mut obs = json!({"state": if ix.is_none() { "none" } else if usable { "fresh" } else { "stale" }});
        if usable {
            match catch(|| ask_all(ix.as_ref().unwrap(), n, &nid)) {
                Ok(a) => obs["ans"] = a,
                Err(p) => { ev["res"] = json!("panic"); ev["msg"] = json!(p); }
            }
        }
        ev["obs"] = obs;
        tr.emit(ev)?;
        if dead || (ix.is_some() && !usable) {
            break;
        }
    }
    Ok(())
}

// ---------------------------------------------------------------------------------- store layer
struct Twin {
    a: GraphStore, // declares the hierarchy index
    b: GraphStore, // never does
    eng: QueryEngine,
    ida: HashMap<i64, NodeId>,
    idb: HashMap<i64, NodeId>,
    ea: HashMap<(i64, i64), EdgeId>,
    eb: HashMap<(i64, i64), EdgeId>,
    n: i64,
    cypher_writes: bool,
    lab: bool, // the measure is declared for label M only, and only odd nodes carry M
}

fn rows(b: Result<samyama::query::RecordBatch, String>, col_is_node: bool, h_of: &HashMap<NodeId, i64>) -> Value {
    match b {
        Err(e) => json!({"err": e}),
        Ok(b) => {
            let mut out: Vec<Value> = vec![];
            let mut raw: Vec<String> = vec![];
            for r in &b.records {
                let v = b.columns.first().and_then(|c| r.get(c));
                let x = match v {
                    Some(QV::NodeRef(id)) | Some(QV::Node(id, _)) if col_is_node => json!(h_of.get(id).copied().unwrap_or(-1)),
                    Some(QV::Property(p)) => prop_to_halves(p),
                    Some(QV::Null) => json!(NOM),
                    _ => json!(NOT_A_HALF),
                };
                if x == json!(NOT_A_HALF) {
                    raw.push(format!("{:?} (columns {:?})", v, b.columns));
                }
                out.push(x);
            }
            // a bag: sorted by its JSON text
            out.sort_by_key(|v| v.to_string());
            if raw.is_empty() { json!({"rows": out}) } else { json!({"rows": out, "raw": raw}) }
        }
    }
}

impl Twin {
    fn q(&mut self, which: u8, text: &str) -> Result<samyama::query::RecordBatch, String> {
        let (e, s) = (&self.eng, if which == 0 { &mut self.a } else { &mut self.b });
        match catch(|| e.execute_mut(text, s, T).map_err(|x| x.to_string())) {
            Ok(r) => r,
            Err(p) => Err(format!("panic: {p}")),
        }
    }
    fn both(&mut self, text: &str) -> Result<(), String> {
        self.q(0, text)?;
        self.q(1, text)?;
        Ok(())
    }
    fn queries(&mut self) -> Value {
        let mut out = vec![];
        let ha: HashMap<NodeId, i64> = self.ida.iter().map(|(h, i)| (*i, *h)).collect();
        let hb: HashMap<NodeId, i64> = self.idb.iter().map(|(h, i)| (*i, *h)).collect();
        for y in 1..=self.n {
            let pin = format!("(r:T {{code: 'n{y}'}})");
            let mut qs: Vec<(String, String, bool)> = vec![];
            for (_, name) in OPS {
                let arg = if name == "count" { "d".to_string() } else { "d.units".to_string() };
                qs.push((format!("rollup:{name}"), format!("MATCH (d)-[:IS_A*0..]->{pin} RETURN {name}({arg}) AS v"), false));
            }
            qs.push(("desc".into(), format!("MATCH (d)-[:IS_A*0..]->{pin} RETURN d"), true));
            qs.push(("desc_rev".into(), format!("MATCH {pin}<-[:IS_A*0..]-(d) RETURN d"), true));
            for (kind, text, is_node) in qs {
                let explain = self.q(0, &format!("EXPLAIN {text}")).map(|b| format!("{:?}", b.records.iter().map(|r| format!("{r:?}")).collect::<Vec<_>>())).unwrap_or_default();
                let rewritten = explain.contains("Hierarchy");
                let w = rows(self.q(0, &text), is_node, &ha);
                let wo = rows(self.q(1, &text), is_node, &hb);
                out.push(json!({"kind": kind, "root": y, "with": w, "without": wo, "rewritten": rewritten}));
            }
        }
        Value::Array(out)
    }
}

fn run_store(s: &Script, tr: &mut Trace, cypher_writes: bool, lab: bool) -> Res<()> {
    tr.reset(&format!("{}@store{}{}", s.sid, if cypher_writes { "-cy" } else { "" }, if lab { "-lab" } else { "" }))?;
    let mut w = Twin { a: GraphStore::new(), b: GraphStore::new(), eng: QueryEngine::new(), ida: HashMap::new(), idb: HashMap::new(),
                       ea: HashMap::new(), eb: HashMap::new(), n: 0, cypher_writes, lab };
    let mut declared = false;
    for step in &s.steps {
        let op = gs(step, "op");
        let mut ev = event_from(step, json!({"res": "ok", "layer": "store"}));
        let r: Result<(), String> = match op {
            "Graph" => {
                w.n = gi(step, "n");
                if w.lab {
                    ev["mlab"] = json!((1..=w.n).filter(|h| h % 2 == 1).collect::<Vec<_>>());
                }
                // a few padding nodes first so that node ids are not the handles
                for st in [&mut w.a, &mut w.b] {
                    st.create_node("Pad");
                    st.create_node("Pad");
                }
                for h in 1..=w.n {
                    let mut pm = PropertyMap::new();
                    pm.insert("code".into(), PropertyValue::String(format!("n{h}")));
                    if let Some(p) = halves_to_prop(&step["meas"][h as usize - 1]) {
                        pm.insert("units".into(), p);
                    }
                    let mut ls = vec![Label::new("T")];
                    if !w.lab || h % 2 == 1 {
                        ls.push(Label::new("M"));
                    }
                    w.ida.insert(h, w.a.create_node_with_properties(T, ls.clone(), pm.clone()));
                    w.idb.insert(h, w.b.create_node_with_properties(T, ls, pm));
                }
                let mut r = Ok(());
                for e in step["cover"].as_array().cloned().unwrap_or_default() {
                    let (c, p) = (e[0].as_i64().unwrap(), e[1].as_i64().unwrap());
                    match (w.a.create_edge(w.ida[&c], w.ida[&p], "IS_A"), w.b.create_edge(w.idb[&c], w.idb[&p], "IS_A")) {
                        (Ok(x), Ok(y)) => { w.ea.insert((c, p), x); w.eb.insert((c, p), y); }
                        (x, y) => r = Err(format!("{x:?} {y:?}")),
                    }
                }
                r
            }
            "Build" => {
                declared = true;
                let m = if w.lab { "M.units" } else { "units" };
                w.q(0, &format!("CREATE HIERARCHY INDEX h ON ()-[:IS_A]->() MEASURE {m} AGGREGATE sum, count, min, max")).map(|_| ())
            }
            "Rebuild" => w.q(0, "REBUILD HIERARCHY INDEX h").map(|_| ()),
            "UpdateMeasure" => {
                let h = gi(step, "node");
                let v = step["v"].clone();
                match halves_to_prop(&v) {
                    Some(p) => {
                        if w.cypher_writes {
                            let lit = match &p { PropertyValue::Integer(i) => format!("{i}"), PropertyValue::Float(f) => format!("{f:?}"), _ => unreachable!() };
                            w.both(&format!("MATCH (n:T {{code: 'n{h}'}}) SET n.units = {lit}"))
                        } else {
                            let (ia, ib) = (w.ida[&h], w.idb[&h]);
                            w.a.set_node_property(T, ia, "units", p.clone()).map_err(|e| e.to_string())
                                .and_then(|_| w.b.set_node_property(T, ib, "units", p).map_err(|e| e.to_string()))
                        }
                    }
                    None => {
                        if w.cypher_writes {
                            w.both(&format!("MATCH (n:T {{code: 'n{h}'}}) REMOVE n.units"))
                        } else {
                            let (ia, ib) = (w.ida[&h], w.idb[&h]);
                            w.a.remove_node_property(ia, "units");
                            w.b.remove_node_property(ib, "units");
                            Ok(())
                        }
                    }
                }
            }
            "AddEdge" => {
                let (c, p) = (gi(step, "c"), gi(step, "p"));
                match (w.a.create_edge(w.ida[&c], w.ida[&p], "IS_A"), w.b.create_edge(w.idb[&c], w.idb[&p], "IS_A")) {
                    (Ok(x), Ok(y)) => { w.ea.insert((c, p), x); w.eb.insert((c, p), y); Ok(()) }
                    (x, y) => Err(format!("{x:?} {y:?}")),
                }
            }
            "DelEdge" => {
                let k = (gi(step, "c"), gi(step, "p"));
                match (w.ea.remove(&k), w.eb.remove(&k)) {
                    (Some(x), Some(y)) => w.a.delete_edge(x).map_err(|e| e.to_string()).and_then(|_| w.b.delete_edge(y).map_err(|e| e.to_string())).map(|_| ()),
                    _ => Err("no such edge".into()),
                }
            }
            _ => panic!("unknown op {op}"),
        };
        if let Err(e) = &r {
            ev["res"] = json!("err");
            ev["msg"] = json!(e);
        }
        // what the manager says about the index, and (when usable) everything it answers
        let mut obs = json!({"state": "none"});
        if declared {
            if let Some(entry) = w.a.hierarchy_index.get("h") {
                let g = entry.read().unwrap();
                obs["state"] = json!(if g.usable() { "fresh" } else if g.stale { "stale" } else { "declined" });
                if g.usable() {
                    let ida = w.ida.clone();
                    let f = move |h: i64| ida[&h];
                    match catch(|| ask_all(g.index.as_ref().unwrap(), w.n, &f)) {
                        Ok(a) => obs["ans"] = a,
                        Err(p) => { ev["res"] = json!("panic"); ev["msg"] = json!(p); }
                    }
                    obs["got"] = json!(g.index.as_ref().unwrap().encoding().name());
                    if op == "Build" || op == "Rebuild" {
                        let p = g.index.as_ref().unwrap().poset();
                        ev["nodes"] = json!((1..=w.n).filter(|h| p.idx(w.ida[h]).is_some()).collect::<Vec<_>>());
                    }
                }
            }
        }
        ev["obs"] = obs;
        let dead = ev["res"] != "ok";
        tr.emit(ev)?;
        if dead {
            break;
        }
        if op != "Graph" || true {
            let q = w.queries();
            tr.emit(json!({"ev": "Queries", "q": q}))?;
        }
    }
    Ok(())
}

// --------------------------------------------------------------------------- random large posets
/// tree / near-tree / low-width DAG over n nodes (parents have smaller numbers), seeded
fn random_cover(rng: &mut StdRng, n: i64, shape: &str) -> Vec<(i64, i64)> {
    let mut e = BTreeSet::new();
    for c in 2..=n {
        if shape == "forest" && rng.gen_range(0..12) == 0 {
            continue; // another root
        }
        let p = if shape == "chainy" { (c - rng.gen_range(1..=3.min(c - 1))).max(1) } else { rng.gen_range(1..c) };
        e.insert((c, p));
    }
    let extra = match shape { "near" => (n / 25).max(1), "dag" => n / 2, "chainy" => n / 3, _ => 0 };
    for _ in 0..extra {
        let c = rng.gen_range(2..=n);
        let p = rng.gen_range(1..c);
        e.insert((c, p));
    }
    e.into_iter().collect()
}

fn run_random(sid: &str, r: &Value, tr: &mut Trace) -> Res<()> {
    let seed = r["seed"].as_u64().unwrap();
    let n = r["n"].as_i64().unwrap();
    let shape = r["shape"].as_str().unwrap();
    let nupd = r["updates"].as_u64().unwrap();
    let mut rng = StdRng::seed_from_u64(seed);
    tr.reset(sid)?;
    let cover = random_cover(&mut rng, n, shape);
    let mut meas: Vec<Value> = (0..n).map(|_| if rng.gen_range(0..5) == 0 { json!(NOM) } else { json!(rng.gen_range(-6..20)) }).collect();
    tr.emit(json!({"ev": "Graph", "n": n, "cover": cover.iter().map(|(c, p)| json!([c, p])).collect::<Vec<_>>(), "meas": meas, "res": "ok",
                   "layer": "api", "obs": {"state": "none"}}))?;
    let encs: Vec<&str> = match shape { "tree" | "forest" => vec!["auto", "chain", "near-tree"], _ => vec!["auto", "chain", "near-tree"] };
    let enc = encs[rng.gen_range(0..encs.len())];
    let p = Poset::from_edges(cover.iter().map(|(c, p)| (nid(*c), nid(*p))), (1..=n).map(nid)).map_err(|e| e.to_string())?;
    let built = match enc {
        "auto" => OehIndex::build(p),
        "near-tree" => OehIndex::build_forced(p, Encoding::NearTree),
        _ => OehIndex::build_forced(p, Encoding::Chain),
    };
    let mut ix = match built {
        Ok(i) => i,
        Err(e) => {
            tr.emit(json!({"ev": "Build", "enc": enc, "res": "err", "msg": e.to_string(), "layer": "api", "obs": {"state": "none"}}))?;
            return Ok(());
        }
    };
    let vals: Vec<Option<RollupValue>> = ix.poset().node_ids().iter().map(|id| halves_to_rollup(&meas[((id.as_u64() - 100) / 7) as usize - 1])).collect();
    ix.set_measure(vals, &[RollupOp::Sum, RollupOp::Count, RollupOp::Min, RollupOp::Max]);
    // certificates: for sampled roots the descendant set the index reports + its roll-ups; for sampled
    // pairs the subsumption answer with the reported ancestor set of x as a refutation certificate
    let certs = |ix: &OehIndex, rng: &mut StdRng| -> Value {
        let p = ix.poset();
        let h = |i: u32| ((p.node_at(i).as_u64() - 100) / 7) as i64;
        let mut roots = vec![];
        for _ in 0..6 {
            let y = if rng.gen_range(0..3) == 0 { 1 } else { rng.gen_range(1..=n) };
            let yi = p.idx(nid(y)).unwrap();
            let mut d: Vec<i64> = ix.descendants(yi).into_iter().map(h).collect();
            d.sort();
            let roll: Vec<Value> = OPS.iter().map(|(op, name)| json!([name, ix.rollup(yi, *op).map(rollup_to_halves).unwrap_or(json!(UNAVAILABLE))])).collect();
            roots.push(json!({"y": y, "desc": d, "roll": roll}));
        }
        let mut pairs = vec![];
        for _ in 0..8 {
            let (x, y) = (rng.gen_range(1..=n), rng.gen_range(1..=n));
            let (xi, yi) = (p.idx(nid(x)).unwrap(), p.idx(nid(y)).unwrap());
            let ans = ix.subsumes(xi, yi);
            // the ancestors of x as the index sees them
            let mut anc: Vec<i64> = (0..p.n() as u32).filter(|&a| ix.subsumes(xi, a)).map(h).collect();
            anc.sort();
            let mut l: Vec<i64> = ix.lowest_common_ancestors(xi, yi).into_iter().map(h).collect();
            l.sort();
            let mut ancy: Vec<i64> = (0..p.n() as u32).filter(|&a| ix.subsumes(yi, a)).map(h).collect();
            ancy.sort();
            pairs.push(json!({"x": x, "y": y, "sub": ans, "ancx": anc, "ancy": ancy, "lca": l}));
        }
        json!({"roots": roots, "pairs": pairs})
    };
    let c = certs(&ix, &mut rng);
    tr.emit(json!({"ev": "Build", "enc": enc, "got": ix.encoding().name(), "res": "ok", "layer": "api", "nodes": (1..=n).collect::<Vec<_>>(),
                   "obs": {"state": "fresh", "certs": c}}))?;
    for _ in 0..nupd {
        let h = rng.gen_range(1..=n);
        let v = match rng.gen_range(0..6) { 0 => json!(NOM), 1 => json!(2 * rng.gen_range(-3..9) + 1), _ => json!(2 * rng.gen_range(-3..12)) };
        meas[h as usize - 1] = v.clone();
        let ok = ix.update_measure(nid(h), halves_to_rollup(&v));
        let c = certs(&ix, &mut rng);
        tr.emit(json!({"ev": "UpdateMeasure", "node": h, "v": v, "res": if ok { "ok" } else { "stale" }, "layer": "api",
                       "obs": {"state": if ok { "fresh" } else { "stale" }, "certs": c}}))?;
        if !ok {
            break;
        }
    }
    Ok(())
}

fn run(scripts: &str, trace: &str, opts: &Opts) -> Res<()> {
    let scripts = read_scripts(scripts)?;
    let mut tr = Trace::create(trace)?;
    let layers = opts.get_str("layers", "api");
    for s in &scripts {
        if let Some(r) = s.raw.get("random") {
            run_random(&s.sid, r, &mut tr)?;
            continue;
        }
        for layer in layers.split(',') {
            match layer {
                "api" => run_api(s, &mut tr)?,
                "store" => run_store(s, &mut tr, false, false)?,
                "store-cy" => run_store(s, &mut tr, true, false)?,
                "store-lab" => run_store(s, &mut tr, false, true)?,
                _ => panic!("layer {layer}"),
            }
        }
    }
    let n = tr.events;
    tr.finish()?;
    println!("{n} events");
    let _ = BTreeMap::<u8, u8>::new();
    Ok(())
}

fn main() {
    harness_main(run);
}
