//! C10: relations over a boundary-value universe of PropertyValue (mode=table) and PropertyIndex insertion orders (mode=index)
use samyama::graph::property::cypher_order;
use samyama::graph::{NodeId, PropertyValue};
use samyama::index::property_index::PropertyIndex;
use serde_json::{json, Value};
use std::cmp::Ordering;
use std::collections::hash_map::DefaultHasher;
use std::collections::HashMap;
use std::hash::{Hash, Hasher};
use verif_harness::*;

use PropertyValue as P;

fn universe() -> Vec<(PropertyValue, &'static str)> {
    let nan = f64::NAN.copysign(1.0);
    let nnan = f64::NAN.copysign(-1.0);
    let m = |kv: Vec<(&str, P)>| P::Map(kv.into_iter().map(|(k, v)| (k.to_string(), v)).collect::<HashMap<_, _>>());
    vec![
        (P::Float(0.0), "float:+0"),
        (P::Float(-0.0), "float:-0"),
        (P::Float(nan), "float:+nan"),
        (P::Float(nnan), "float:-nan"),
        (P::Float(1.0), "float"),
        (P::Float(-1.0), "float"),
        (P::Float(2.0), "float"),
        (P::Float(0.5), "float"),
        (P::Float(f64::INFINITY), "float"),
        (P::Float(f64::NEG_INFINITY), "float"),
        (P::Float(9007199254740992.0), "float"),
        (P::Float(1e300), "float"),
        (P::Float(f64::MIN_POSITIVE), "float"),
        (P::Integer(0), "int"),
        (P::Integer(1), "int"),
        (P::Integer(-1), "int"),
        (P::Integer(2), "int"),
        (P::Integer(9007199254740992), "int"),
        (P::Integer(9007199254740993), "int"),
        (P::Integer(9007199254740994), "int"),
        (P::Integer(i64::MAX), "int"),
        (P::Integer(i64::MIN), "int"),
        (P::String("".into()), "str"),
        (P::String("a".into()), "str"),
        (P::String("b".into()), "str"),
        (P::String("A".into()), "str"),
        (P::Boolean(false), "bool"),
        (P::Boolean(true), "bool"),
        (P::DateTime(0), "datetime"),
        (P::DateTime(1), "datetime"),
        (P::Array(vec![]), "list"),
        (P::Array(vec![P::Integer(1)]), "list"),
        (P::Array(vec![P::Integer(1), P::Integer(2)]), "list"),
        (P::Array(vec![P::Array(vec![])]), "list"),
        (P::Array(vec![P::Null]), "list"),
        (P::Array(vec![P::Float(0.0)]), "contains-zero"),
        (P::Array(vec![P::Float(-0.0)]), "contains-zero"),
        (P::Array(vec![P::Float(nan)]), "contains-nan"),
        (m(vec![]), "map"),
        (m(vec![("a", P::Integer(1))]), "map"),
        (m(vec![("a", P::Integer(1)), ("b", P::Integer(2))]), "map"),
        (m(vec![("b", P::Integer(1))]), "map"),
        (m(vec![("a", P::Float(0.0))]), "contains-zero"),
        (m(vec![("a", P::Float(-0.0))]), "contains-zero"),
        (m(vec![("a", P::Float(nan))]), "contains-nan"),
        (P::Vector(vec![]), "vector"),
        (P::Vector(vec![1.0]), "vector"),
        (P::Vector(vec![0.0]), "contains-zero"),
        (P::Vector(vec![-0.0]), "contains-zero"),
        (P::Vector(vec![f32::NAN]), "contains-nan"),
        (P::Duration { months: 0, days: 0, seconds: 0, nanos: 0 }, "duration"),
        (P::Duration { months: 0, days: 1, seconds: 0, nanos: 0 }, "duration"),
        (P::Duration { months: 1, days: 0, seconds: 0, nanos: 0 }, "duration"),
        (P::Null, "null"),
    ]
}

fn ord(o: Ordering) -> i32 {
    match o {
        Ordering::Less => -1,
        Ordering::Equal => 0,
        Ordering::Greater => 1,
    }
}
fn h(v: &PropertyValue) -> u64 {
    let mut s = DefaultHasher::new();
    v.hash(&mut s);
    s.finish()
}

/// the small sub-universe used for the insertion-order clause (1-based positions in this list = model values)
fn index_vals() -> Vec<PropertyValue> {
    let u = universe();
    [3usize, 5, 13, 14, 0, 1, 2, 23].iter().map(|i| u[*i].0.clone()).collect() // -nan, -1.0, int 0, int 1, +0, -0, +nan, "a"
}

fn run(scripts: &str, trace: &str, opts: &Opts) -> Res<()> {
    let mode = opts.get_str("mode", "table");
    if mode == "table" {
        let u = universe();
        let n = u.len();
        let mut cmp = vec![vec![0; n]; n];
        let mut cy = vec![vec![0; n]; n];
        let mut eq = vec![vec![false; n]; n];
        let mut heq = vec![vec![false; n]; n];
        for i in 0..n {
            for j in 0..n {
                cmp[i][j] = ord(u[i].0.cmp(&u[j].0));
                cy[i][j] = ord(cypher_order(&u[i].0, &u[j].0));
                eq[i][j] = u[i].0 == u[j].0;
                heq[i][j] = h(&u[i].0) == h(&u[j].0);
            }
        }
        let cls: Vec<&str> = u.iter().map(|x| x.1).collect();
        let show: Vec<String> = u.iter().map(|x| format!("{:?}", x.0)).collect();
        std::fs::write(trace, serde_json::to_string(&json!({"cls": cls, "show": show, "cmp": cmp, "cy": cy, "eq": eq, "heq": heq}))?)?;
        return Ok(());
    }
    let vals = index_vals();
    let scripts = read_scripts(scripts)?;
    let mut tr = Trace::create(trace)?;
    for s in &scripts {
        tr.reset(&s.sid)?;
        let mut idx = PropertyIndex::new();
        for step in &s.steps {
            let v = vals[gi(step, "v") as usize - 1].clone();
            let n = NodeId::new(gi(step, "n") as u64);
            match gs(step, "op") {
                "Insert" => idx.insert(v, n),
                "Remove" => idx.remove(&v, n),
                o => return Err(format!("unknown op {o}").into()),
            }
            let get: Vec<Value> = vals
                .iter()
                .map(|v| {
                    let mut g: Vec<u64> = idx.get(v).iter().map(|x| x.as_u64()).collect();
                    g.sort();
                    json!(g)
                })
                .collect();
            let mut all: Vec<u64> = idx.range::<std::ops::RangeFull>(..).iter().map(|x| x.as_u64()).collect();
            all.sort();
            tr.emit(event_from(step, json!({"obs": {"get": get, "all": all}})))?;
        }
    }
    tr.finish()
}

fn main() {
    harness_main(run);
}
