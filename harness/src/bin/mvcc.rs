//! C07 / C08: versioned reads and version GC of GraphStore.
//! Model node id n <-> real NodeId n+2 (ids 1,2 are two permanent anchor nodes that carry the relationships).
use samyama::graph::{EdgeId, GraphStore, IsolationLevel, Label, NodeId, PropertyMap, PropertyValue};
use serde_json::{json, Map, Value};
use verif_harness::*;

fn val_of(tok: &str) -> PropertyValue {
    match tok {
        "v1" => PropertyValue::Integer(1),
        "v2" => PropertyValue::Integer(2),
        other => PropertyValue::String(other.to_string()),
    }
}
fn tok_of(v: Option<&PropertyValue>) -> Value {
    match v {
        None | Some(PropertyValue::Null) => json!("none"),
        Some(PropertyValue::Integer(1)) => json!("v1"),
        Some(PropertyValue::Integer(2)) => json!("v2"),
        Some(other) => json!(format!("{other:?}")),
    }
}

fn observe(st: &GraphStore, maxn: u64, maxe: u64) -> Value {
    let cur = st.current_version;
    let mut node_at = Vec::new();
    for n in 1..=maxn {
        let mut row = Vec::new();
        for v in 1..=cur {
            match st.get_node_at_version(NodeId::new(n + 2), v) {
                Some(x) => {
                    let mut ls: Vec<String> = x.labels.iter().map(|l| l.as_str().to_string()).collect();
                    ls.sort();
                    row.push(json!({"live": true, "labels": ls, "p": tok_of(x.get_property("p"))}));
                }
                None => row.push(json!({"live": false, "labels": [], "p": "none"})),
            }
        }
        node_at.push(row);
    }
    let mut edge_at = Vec::new();
    for e in 1..=maxe {
        let mut row = Vec::new();
        for v in 1..=cur {
            match st.get_edge_at_version(EdgeId::new(e), v) {
                Some(x) => row.push(json!({"live": true, "p": tok_of(x.properties.get("p"))})),
                None => row.push(json!({"live": false, "p": "none"})),
            }
        }
        edge_at.push(row);
    }
    let mut all: Vec<u64> = st.all_nodes().iter().map(|n| n.id.as_u64()).filter(|i| *i > 2).map(|i| i - 2).collect();
    all.sort();
    json!({"cur": cur, "nodeAt": node_at, "edgeAt": edge_at, "nodeCount": st.node_count() as i64 - 2, "allNodes": all})
}

fn run(scripts: &str, trace: &str, opts: &Opts) -> Res<()> {
    let maxn = opts.get_u64("maxn", 2);
    let maxe = opts.get_u64("maxe", 1);
    let scripts = read_scripts(scripts)?;
    let mut tr = Trace::create(trace)?;
    for s in &scripts {
        tr.reset(&s.sid)?;
        let mut st = GraphStore::new();
        let a = st.create_node("Anchor");
        let b = st.create_node("Anchor");
        let mut txns: Vec<u64> = Vec::new();
        let mut skip = false;
        for step in &s.steps {
            if skip {
                break;
            }
            let op = gs(step, "op");
            let mut x = Map::new();
            let okerr = |r: bool| json!(if r { "ok" } else { "err" });
            match op {
                "CreateNode" => {
                    let labels: Vec<Label> = step["labels"].as_array().unwrap().iter().map(|l| Label::new(l.as_str().unwrap())).collect();
                    let id = st.create_node_with_labels(labels).as_u64();
                    if id < 3 || id - 2 > maxn {
                        // the allocator left the model's universe: stop this script here (nothing more can be judged)
                        skip = true;
                        continue;
                    }
                    x.insert("id".into(), json!(id - 2));
                }
                "SetNodeProp" => {
                    let r = st.set_node_property("default", NodeId::new(gi(step, "n") as u64 + 2), "p", val_of(gs(step, "v")));
                    x.insert("res".into(), okerr(r.is_ok()));
                }
                "RemoveNodeProp" => st.remove_node_property(NodeId::new(gi(step, "n") as u64 + 2), "p"),
                "AddLabel" => {
                    let r = st.add_label_to_node("default", NodeId::new(gi(step, "n") as u64 + 2), Label::new(gs(step, "label")));
                    x.insert("res".into(), okerr(r.is_ok()));
                }
                "RemoveLabel" => {
                    let r = st.remove_label_from_node(NodeId::new(gi(step, "n") as u64 + 2), &Label::new(gs(step, "label")));
                    x.insert("res".into(), okerr(r.is_ok()));
                }
                "DeleteNode" => {
                    let r = st.delete_node("default", NodeId::new(gi(step, "n") as u64 + 2));
                    x.insert("res".into(), okerr(r.is_ok()));
                }
                "CreateEdge" => {
                    let p = gs(step, "p");
                    let r = if p == "none" {
                        st.create_edge(a, b, "T")
                    } else {
                        let mut m = PropertyMap::new();
                        m.insert("p".to_string(), val_of(p));
                        st.create_edge_with_properties(a, b, "T", m)
                    };
                    let id = r.map(|e| e.as_u64()).unwrap_or(0);
                    if id == 0 || id > maxe {
                        skip = true;
                        continue;
                    }
                    x.insert("id".into(), json!(id));
                }
                "SetEdgeProp" => {
                    let r = st.set_edge_property(EdgeId::new(gi(step, "e") as u64), "p", val_of(gs(step, "v")));
                    x.insert("res".into(), okerr(r.is_ok()));
                }
                "DeleteEdge" => {
                    let r = st.delete_edge(EdgeId::new(gi(step, "e") as u64));
                    x.insert("res".into(), okerr(r.is_ok()));
                }
                "Bump" => {
                    let t = st.begin_transaction(IsolationLevel::ReadCommitted);
                    st.commit_transaction(t).map_err(|e| format!("bump commit failed: {e:?}"))?;
                }
                "BeginTxn" => txns.push(st.begin_transaction(IsolationLevel::SnapshotIsolation)),
                "EndTxn" => {
                    let k = gi(step, "k") as usize - 1;
                    if k < txns.len() {
                        let t = txns.remove(k);
                        let _ = st.abort_transaction(t);
                    }
                }
                "Gc" => {
                    st.gc_versions(gi(step, "w") as u64);
                }
                "GcAuto" => {
                    x.insert("w".into(), json!(st.gc_watermark()));
                    st.gc_auto();
                }
                _ => return Err(format!("unknown op {op}").into()),
            }
            x.insert("obs".into(), observe(&st, maxn, maxe));
            tr.emit(event_from(step, Value::Object(x)))?;
        }
    }
    tr.finish()
}

fn main() {
    harness_main(run);
}
