//! C29: vector search through GraphStore (and through Cypher) -- src/vector/*, src/graph/store.rs,
//! VectorSearchOperator.
//!
//! Script steps (TLC-generated, node handles h = model ids):
//!   CreateNode{h,labels,vecs{prop:[x,y]}} SetVector{h,prop,v} DropVector{h,prop,how} AddLabel{h,label}
//!   RemoveLabel{h,label} DeleteNode{h} CreateIndex{label,prop,metric,backfill} Rebuild
//! or {"sid","random":{"seed","steps","nodes"}}: a seeded random history generated here.
//! After every step a "Searches" event logs the answer of EVERY search (declared index x query x k).
//! `via=store` drives the GraphStore API, `via=cypher` the same operations as Cypher statements.
//! Nothing is judged here: TLC (VectorIdx_Trace.tla) decides.
use rand::rngs::StdRng;
use rand::{Rng, SeedableRng};
use samyama::graph::{GraphStore, Label, NodeId, PropertyMap, PropertyValue};
use samyama::query::Value as QV;
use samyama::query::QueryEngine;
use samyama::vector::DistanceMetric;
use serde_json::{json, Value};
use std::collections::{BTreeMap, BTreeSet, HashMap};
use verif_harness::*;

const T: &str = "default";

struct World {
    store: GraphStore,
    engine: QueryEngine,
    via: String,
    ids: HashMap<i64, u64>,           // handle -> real id
    seen: BTreeSet<u64>,              // every real id ever handed out
    indexes: BTreeMap<(String, String), String>,
    qs: Vec<Vec<i64>>,
    ks: Vec<usize>,
}

fn vecf(v: &[i64]) -> Vec<f32> {
    v.iter().map(|x| *x as f32).collect()
}
fn lit(v: &[i64]) -> String {
    format!("[{}]", v.iter().map(|x| format!("{x}.0")).collect::<Vec<_>>().join(", "))
}
fn ints(v: &Value) -> Vec<i64> {
    v.as_array().unwrap().iter().map(|x| x.as_i64().unwrap()).collect()
}

impl World {
    fn new(via: &str, qs: Vec<Vec<i64>>, ks: Vec<usize>) -> Self {
        World { store: GraphStore::new(), engine: QueryEngine::new(), via: via.into(), ids: HashMap::new(), seen: BTreeSet::new(),
                indexes: BTreeMap::new(), qs, ks }
    }
    fn cy(&mut self, q: &str) -> Result<samyama::query::RecordBatch, String> {
        let (e, s) = (&self.engine, &mut self.store);
        match catch(|| e.execute_mut(q, s, T).map_err(|x| x.to_string())) {
            Ok(r) => r,
            Err(p) => Err(format!("panic: {p}")),
        }
    }
    fn nodes_obs(&self) -> Value {
        let mut out = Vec::new();
        for &id in &self.seen {
            if let Some(n) = self.store.get_node(NodeId::new(id)) {
                let mut labels: Vec<String> = n.labels.iter().map(|l| l.as_str().to_string()).collect();
                labels.sort();
                let mut vecs = serde_json::Map::new();
                for (k, v) in n.properties.iter() {
                    if let Some(f) = v.to_vector() {
                        vecs.insert(k.clone(), json!(f.iter().map(|x| *x as i64).collect::<Vec<_>>()));
                    }
                }
                out.push(json!([id, labels, Value::Object(vecs)]));
            }
        }
        Value::Array(out)
    }
    fn searches(&mut self) -> Value {
        let mut out = Vec::new();
        let keys: Vec<(String, String)> = self.indexes.keys().cloned().collect();
        for (label, prop) in keys {
            for q in self.qs.clone() {
                for k in self.ks.clone() {
                    let mut a = json!({"label": label, "prop": prop, "q": q, "k": k, "via": self.via, "ok": true, "res": []});
                    if self.via == "cypher" {
                        let text = format!("CALL db.index.vector.queryNodes('{label}', '{prop}', {}, {k}) YIELD node, score RETURN id(node) AS nid, score", lit(&q));
                        match self.cy(&text) {
                            Ok(b) => {
                                let mut ids = Vec::new();
                                let mut bad = None;
                                for r in &b.records {
                                    match r.get("nid") {
                                        Some(QV::Property(PropertyValue::Integer(i))) => ids.push(*i),
                                        other => bad = Some(format!("{other:?}")),
                                    }
                                }
                                if let Some(b) = bad {
                                    a["ok"] = json!(false);
                                    a["msg"] = json!(format!("unexpected nid binding {b}"));
                                } else {
                                    a["res"] = json!(ids);
                                }
                            }
                            Err(e) => {
                                a["ok"] = json!(false);
                                a["msg"] = json!(e);
                            }
                        }
                    } else {
                        let st = &self.store;
                        let qf = vecf(&q);
                        match catch(|| st.vector_search(&label, &prop, &qf, k)) {
                            Ok(Ok(r)) => {
                                a["res"] = json!(r.iter().map(|(n, _)| n.as_u64()).collect::<Vec<_>>());
                                a["scores"] = json!(r.iter().map(|(_, d)| format!("{d}")).collect::<Vec<_>>());
                            }
                            Ok(Err(e)) => {
                                a["ok"] = json!(false);
                                a["msg"] = json!(e.to_string());
                            }
                            Err(p) => {
                                a["ok"] = json!(false);
                                a["msg"] = json!(format!("panic: {p}"));
                            }
                        }
                    }
                    out.push(a);
                }
            }
        }
        Value::Array(out)
    }
    fn real(&self, step: &Value) -> u64 {
        *self.ids.get(&gi(step, "h")).unwrap_or_else(|| panic!("script uses unknown handle: {step}"))
    }

    /// executes one step; returns the event (without obs)
    fn exec(&mut self, step: &Value) -> Value {
        let op = gs(step, "op").to_string();
        let cyp = self.via == "cypher";
        let mut ev = json!({"ev": op, "res": "ok"});
        let mut fail = |ev: &mut Value, e: String| {
            ev["res"] = json!("err");
            ev["msg"] = json!(e);
        };
        match op.as_str() {
            "CreateNode" => {
                let mut labels: Vec<String> = step["labels"].as_array().map(|a| a.iter().map(|x| x.as_str().unwrap().to_string()).collect()).unwrap_or_default();
                labels.sort();
                let vecs: BTreeMap<String, Vec<i64>> = step["vecs"].as_object().map(|o| o.iter().map(|(k, v)| (k.clone(), ints(v))).collect()).unwrap_or_default();
                let id = if cyp {
                    let ls: String = labels.iter().map(|l| format!(":{l}")).collect();
                    let ps = if vecs.is_empty() { String::new() } else {
                        format!(" {{{}}}", vecs.iter().map(|(k, v)| format!("{k}: {}", lit(v))).collect::<Vec<_>>().join(", "))
                    };
                    match self.cy(&format!("CREATE (n{ls}{ps}) RETURN id(n) AS nid")) {
                        Ok(b) => match b.records.first().and_then(|r| r.get("nid")) {
                            Some(QV::Property(PropertyValue::Integer(i))) => Some(*i as u64),
                            other => { fail(&mut ev, format!("no id: {other:?}")); None }
                        },
                        Err(e) => { fail(&mut ev, e); None }
                    }
                } else {
                    let mut pm = PropertyMap::new();
                    for (k, v) in &vecs {
                        pm.insert(k.clone(), PropertyValue::Vector(vecf(v)));
                    }
                    let st = &mut self.store;
                    let ls: Vec<Label> = labels.iter().map(|l| Label::new(l.as_str())).collect();
                    match catch(|| st.create_node_with_properties(T, ls, pm)) {
                        Ok(id) => Some(id.as_u64()),
                        Err(p) => { fail(&mut ev, format!("panic: {p}")); None }
                    }
                };
                if let Some(id) = id {
                    self.ids.insert(gi(step, "h"), id);
                    self.seen.insert(id);
                    ev["id"] = json!(id);
                }
                ev["h"] = step["h"].clone();
                ev["labels"] = json!(labels);
                ev["vecs"] = json!(vecs);
            }
            "SetVector" | "DropVector" | "AddLabel" | "RemoveLabel" | "DeleteNode" => {
                let id = self.real(step);
                ev["id"] = json!(id);
                ev["h"] = step["h"].clone();
                let nid = NodeId::new(id);
                let m = format!("MATCH (n) WHERE id(n) = {id}");
                let r: Result<(), String> = match op.as_str() {
                    "SetVector" => {
                        let (p, v) = (gs(step, "prop").to_string(), ints(&step["v"]));
                        ev["prop"] = json!(p);
                        ev["v"] = json!(v);
                        if cyp { self.cy(&format!("{m} SET n.{p} = {}", lit(&v))).map(|_| ()) } else {
                            let st = &mut self.store;
                            catch(|| st.set_node_property(T, nid, p.clone(), PropertyValue::Vector(vecf(&v))).map_err(|e| e.to_string())).and_then(|x| x)
                        }
                    }
                    "DropVector" => {
                        let (p, how) = (gs(step, "prop").to_string(), gs(step, "how").to_string());
                        ev["prop"] = json!(p);
                        ev["how"] = json!(how);
                        if cyp {
                            let q = if how == "scalar" { format!("{m} SET n.{p} = 5") } else { format!("{m} REMOVE n.{p}") };
                            self.cy(&q).map(|_| ())
                        } else {
                            let st = &mut self.store;
                            if how == "scalar" {
                                catch(|| st.set_node_property(T, nid, p.clone(), PropertyValue::Integer(5)).map_err(|e| e.to_string())).and_then(|x| x)
                            } else {
                                catch(|| st.remove_node_property(nid, &p))
                            }
                        }
                    }
                    "AddLabel" | "RemoveLabel" => {
                        let lab = gs(step, "label").to_string();
                        ev["label"] = json!(lab);
                        if cyp {
                            let q = if op == "AddLabel" { format!("{m} SET n:{lab}") } else { format!("{m} REMOVE n:{lab}") };
                            self.cy(&q).map(|_| ())
                        } else {
                            let st = &mut self.store;
                            if op == "AddLabel" {
                                catch(|| st.add_label_to_node(T, nid, lab.as_str()).map_err(|e| e.to_string())).and_then(|x| x)
                            } else {
                                catch(|| st.remove_label_from_node(nid, &Label::new(lab.as_str())).map(|_| ()).map_err(|e| e.to_string())).and_then(|x| x)
                            }
                        }
                    }
                    _ => {
                        if cyp { self.cy(&format!("{m} DETACH DELETE n")).map(|_| ()) } else {
                            let st = &mut self.store;
                            catch(|| st.delete_node(T, nid).map(|_| ()).map_err(|e| e.to_string())).and_then(|x| x)
                        }
                    }
                };
                if let Err(e) = r {
                    fail(&mut ev, e);
                }
            }
            "CreateIndex" => {
                let (label, prop, metric) = (gs(step, "label").to_string(), gs(step, "prop").to_string(), gs(step, "metric").to_string());
                let mut backfill = step["backfill"].as_bool().unwrap_or(true);
                // the DDL statement knows cosine and l2 only and always backfills; anything else goes through the store API
                let r: Result<(), String> = if cyp && metric != "dot" {
                    backfill = true;
                    ev["ddl"] = json!(true);
                    self.cy(&format!("CREATE VECTOR INDEX ix_{label}_{prop} FOR (n:{label}) ON (n.{prop}) OPTIONS {{dimensions: 2, similarity: '{metric}'}}")).map(|_| ())
                } else {
                    let m = match metric.as_str() { "cosine" => DistanceMetric::Cosine, "l2" => DistanceMetric::L2, _ => DistanceMetric::InnerProduct };
                    let st = &mut self.store;
                    catch(|| {
                        let r = st.create_vector_index(&label, &prop, 2, m).map_err(|e| e.to_string());
                        if r.is_ok() && backfill {
                            st.rebuild_vector_index();
                        }
                        r
                    }).and_then(|x| x)
                };
                ev["label"] = json!(label);
                ev["prop"] = json!(prop);
                ev["metric"] = json!(metric);
                ev["backfill"] = json!(backfill);
                match r {
                    Ok(()) => { self.indexes.insert((label, prop), metric); }
                    Err(e) => fail(&mut ev, e),
                }
            }
            "Rebuild" => {
                let st = &mut self.store;
                if let Err(p) = catch(|| st.rebuild_vector_index()) {
                    fail(&mut ev, format!("panic: {p}"));
                }
            }
            _ => panic!("unknown op {op}"),
        }
        ev
    }
}

/// a seeded random history: creations, vector updates, label changes, deletions, index (re)builds
fn random_steps(seed: u64, nsteps: usize, nh: i64) -> Vec<Value> {
    let mut rng = StdRng::seed_from_u64(seed);
    let vecs: Vec<Vec<i64>> = vec![vec![1, 0], vec![2, 0], vec![0, 1], vec![1, 1], vec![-1, 0], vec![1, 2], vec![2, 1], vec![0, -2], vec![3, 1], vec![-2, 3]];
    let labels = ["A", "B"];
    let metrics = ["cosine", "l2", "dot"];
    let mut live: BTreeSet<i64> = BTreeSet::new();
    let mut elig_possible = false;
    let mut out = Vec::new();
    // declare the indexes early (sometimes later, then with backfill)
    for l in labels {
        if rng.gen_range(0..4) != 0 {
            out.push(json!({"op": "CreateIndex", "label": l, "prop": "e", "metric": metrics[rng.gen_range(0..3)], "backfill": false}));
        }
    }
    while out.len() < nsteps {
        let c = rng.gen_range(0..100);
        let pick_live = |rng: &mut StdRng, live: &BTreeSet<i64>| *live.iter().nth(rng.gen_range(0..live.len())).unwrap();
        let v = vecs[rng.gen_range(0..vecs.len())].clone();
        if live.is_empty() || (c < 22 && (live.len() as i64) < nh) {
            let h = (1..=nh).find(|h| !live.contains(h)).unwrap();
            let ls: Vec<&str> = labels.iter().filter(|_| rng.gen_range(0..3) != 0).copied().collect();
            let vs = if rng.gen_range(0..4) != 0 { json!({"e": v}) } else { json!({}) };
            out.push(json!({"op": "CreateNode", "h": h, "labels": ls, "vecs": vs}));
            live.insert(h);
            elig_possible = true;
        } else if c < 55 {
            out.push(json!({"op": "SetVector", "h": pick_live(&mut rng, &live), "prop": "e", "v": v}));
        } else if c < 62 {
            out.push(json!({"op": "DropVector", "h": pick_live(&mut rng, &live), "prop": "e", "how": if rng.gen() { "scalar" } else { "remove" }}));
        } else if c < 72 {
            out.push(json!({"op": "AddLabel", "h": pick_live(&mut rng, &live), "label": labels[rng.gen_range(0..2)]}));
        } else if c < 80 {
            out.push(json!({"op": "RemoveLabel", "h": pick_live(&mut rng, &live), "label": labels[rng.gen_range(0..2)]}));
        } else if c < 92 {
            let h = pick_live(&mut rng, &live);
            out.push(json!({"op": "DeleteNode", "h": h}));
            live.remove(&h);
        } else if c < 96 {
            out.push(json!({"op": "CreateIndex", "label": labels[rng.gen_range(0..2)], "prop": "e", "metric": metrics[rng.gen_range(0..3)], "backfill": elig_possible}));
        } else {
            out.push(json!({"op": "Rebuild"}));
        }
    }
    out
}

fn run(scripts: &str, trace: &str, opts: &Opts) -> Res<()> {
    let scripts = read_scripts(scripts)?;
    let mut tr = Trace::create(trace)?;
    let vias: Vec<String> = opts.get_str("via", "store").split(',').map(|s| s.to_string()).collect();
    let qs: Vec<Vec<i64>> = opts.get_str("qs", "1:0,1:1").split(',').map(|q| q.split(':').map(|x| x.parse().unwrap()).collect()).collect();
    let ks: Vec<usize> = opts.get_str("ks", "1,2,3").split(',').map(|x| x.parse().unwrap()).collect();
    let mut nsearch = 0u64;
    for s in &scripts {
        let steps: Vec<Value> = match s.raw.get("random") {
            Some(r) => random_steps(r["seed"].as_u64().unwrap(), r["steps"].as_u64().unwrap() as usize, r["nodes"].as_i64().unwrap()),
            None => s.steps.clone(),
        };
        for via in &vias {
            tr.reset(&format!("{}@{}", s.sid, via))?;
            let mut w = World::new(via, qs.clone(), ks.clone());
            if let Some(r) = s.raw.get("random") {
                if let Some(k) = r.get("ks") {
                    w.ks = k.as_array().unwrap().iter().map(|x| x.as_u64().unwrap() as usize).collect();
                }
            }
            let every = s.raw.get("random").and_then(|r| r.get("search_every")).and_then(|x| x.as_u64()).unwrap_or(1) as usize;
            for (si, step) in steps.iter().enumerate() {
                let mut ev = w.exec(step);
                let ok = ev["res"] == "ok";
                ev["obs"] = json!({"nodes": w.nodes_obs()});
                tr.emit(ev)?;
                if !ok {
                    break;
                }
                if !w.indexes.is_empty() && (si % every == 0 || si + 1 == steps.len()) {
                    let s = w.searches();
                    nsearch += s.as_array().map_or(0, |a| a.len()) as u64;
                    tr.emit(json!({"ev": "Searches", "s": s}))?;
                }
            }
        }
    }
    let n = tr.events;
    tr.finish()?;
    println!("{n} events, {nsearch} searches");
    Ok(())
}

fn main() {
    harness_main(run);
}
