//! C09: MVCC transaction table of GraphStore (begin/write/commit/abort, reads per isolation level)
use samyama::graph::{GraphStore, IsolationLevel, PropertyValue, TxnStatus};
use serde_json::{json, Value};
use verif_harness::*;

fn run(scripts: &str, trace: &str, _opts: &Opts) -> Res<()> {
    let scripts = read_scripts(scripts)?;
    let mut tr = Trace::create(trace)?;
    for s in &scripts {
        tr.reset(&s.sid)?;
        let mut st = GraphStore::new();
        let n1 = st.create_node("A");
        let n2 = st.create_node("A");
        let e1 = st.create_edge(n1, n2, "T").unwrap();
        // version marker: n1.v always holds the version at which it was last written, rewritten after every commit
        st.set_node_property("default", n1, "v", PropertyValue::Integer(st.current_version as i64)).unwrap();
        let mut ids: Vec<u64> = Vec::new();
        for step in &s.steps {
            let op = gs(step, "op");
            let mut extra = serde_json::Map::new();
            match op {
                "Begin" => {
                    let iso = if gs(step, "iso") == "RC" { IsolationLevel::ReadCommitted } else { IsolationLevel::SnapshotIsolation };
                    let id = st.begin_transaction(iso);
                    extra.insert("fresh".into(), json!(!ids.contains(&id)));
                    ids.push(id);
                }
                "Write" => {
                    let t = ids[gi(step, "t") as usize - 1];
                    match gs(step, "x") {
                        "n1" => st.txn_write_node(t, n1),
                        "n2" => st.txn_write_node(t, n2),
                        "e1" => st.txn_write_edge(t, e1),
                        x => panic!("unknown entity {x}"),
                    }
                }
                "Commit" => {
                    let t = ids[gi(step, "t") as usize - 1];
                    match st.commit_transaction(t) {
                        Ok(v) => {
                            extra.insert("res".into(), json!("ok"));
                            extra.insert("ver".into(), json!(v));
                            let cv = st.current_version as i64;
                            st.set_node_property("default", n1, "v", PropertyValue::Integer(cv)).unwrap();
                        }
                        Err(_) => {
                            extra.insert("res".into(), json!("err"));
                        }
                    }
                }
                "Abort" => {
                    let t = ids[gi(step, "t") as usize - 1];
                    extra.insert("res".into(), json!(if st.abort_transaction(t).is_ok() { "ok" } else { "err" }));
                }
                "Gc" => {
                    st.gc_auto();
                }
                _ => panic!("unknown op {op}"),
            }
            let status: Vec<Value> = ids
                .iter()
                .map(|t| match st.active_transactions.get(t) {
                    None => json!("gone"),
                    Some(x) => json!(match x.status {
                        TxnStatus::Active => "active",
                        TxnStatus::Committed => "committed",
                        TxnStatus::Aborted => "aborted",
                    }),
                })
                .collect();
            let reads: Vec<Value> = ids
                .iter()
                .map(|t| match st.get_node_for_txn(*t, n1).and_then(|n| n.get_property("v").cloned()) {
                    Some(PropertyValue::Integer(i)) => json!(i),
                    _ => json!(-1),
                })
                .collect();
            extra.insert("obs".into(), json!({"cur": st.current_version, "status": status, "reads": reads}));
            tr.emit(event_from(step, Value::Object(extra)))?;
        }
    }
    tr.finish()
}

fn main() {
    harness_main(run);
}
