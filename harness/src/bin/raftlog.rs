//! C31: RaftStorage log operations (src/raft/storage.rs)
use verif_harness::*;
use samyama::raft::storage::{LogEntry, RaftStorage};
use serde_json::{json, Value};

async fn observe(st: &RaftStorage, maxi: u64) -> Value {
    let entries: Vec<Value> =
        st.get_entries(0, u64::MAX).await.iter().map(|e| json!([e.index, e.term])).collect();
    let (li, lt) = st.get_last_log_index_term().await;
    let snap = st.get_snapshot_metadata().await.unwrap_or((0, 0));
    let mut get = Vec::new();
    for i in 1..=maxi {
        get.push(st.get_entry(i).await.map(|e| e.term).unwrap_or(0));
    }
    json!({"entries": entries, "last": [li, lt], "snap": [snap.0, snap.1], "get": get})
}

fn run(scripts: &str, trace: &str, opts: &Opts) -> Res<()> {
    let maxi = opts.get_u64("maxindex", 8);
    let scripts = read_scripts(scripts)?;
    let mut tr = Trace::create(trace)?;
    let rt = rt();
    let dir = tempfile::tempdir()?;
    for s in &scripts {
        tr.reset(&s.sid)?;
        let st = RaftStorage::new(dir.path().join("r"))?;
        for step in &s.steps {
            let op = gs(step, "op");
            rt.block_on(async {
                match op {
                    "Append" => {
                        let first = gi(step, "first") as u64;
                        let ents: Vec<LogEntry> = step["terms"]
                            .as_array()
                            .unwrap()
                            .iter()
                            .enumerate()
                            .map(|(k, t)| LogEntry {
                                index: first + k as u64,
                                term: t.as_u64().unwrap(),
                                data: vec![k as u8],
                            })
                            .collect();
                        st.append_entries(ents).await.unwrap();
                    }
                    "DeleteFrom" => st.delete_entries_from(gi(step, "i") as u64).await.unwrap(),
                    "Snapshot" => st
                        .create_snapshot(gi(step, "i") as u64, gi(step, "t") as u64, vec![])
                        .await
                        .unwrap(),
                    _ => panic!("unknown op {op}"),
                }
            });
            let obs = rt.block_on(observe(&st, maxi));
            tr.emit(event_from(step, json!({ "obs": obs })))?;
        }
    }
    tr.finish()
}

fn main() {
    harness_main(run);
}
