//! C01 / C35 / C02: read queries of the Cypher engine against the TLA+ reference semantics (spec/CypherRead.tla).
//!
//! A script is a graph history (CreateNode, CreateRel, and for C02 also DeleteNode, DeleteRel, SetNodeProp,
//! RemoveNodeProp, SetRelProp, AddLabel, RemoveLabel, Compact, CreateIndex) followed by / interleaved with
//! `Query` steps that carry a typed AST.  The AST is RENDERED to Cypher text here (the renderer is kept trivially
//! faithful: every binary expression fully parenthesised, every literal printed canonically), executed through the
//! real engine and the returned columns/rows are logged with entities mapped back to handles (creation order) and
//! values mapped to the value tokens of spec/Values.tla.  Nothing is judged here: TLC computes the expected result
//! from the logged graph + AST (spec/CypherRead_Trace.tla).
//!
//! mode=c01  one execution per query (QueryEngine::execute)
//! mode=c35  the inlined execution plus one execution through QueryExecutor::with_params per position class that holds
//!           a literal of the query (where, ret, with, order, inline, unwind, list = a whole list literal as one
//!           parameter, elem = every list element, skiplimit, all): `pouts`
//! mode=c02  every script under {CreateIndex steps executed / skipped} x {Compact steps executed / skipped} x
//!           {SAMYAMA_GRAPH_NATIVE unset / true} x {SAMYAMA_FILTER_PARALLEL_COST 0 / huge}, on the plain store and,
//!           for queries marked `lin` (one connected MATCH, plain RETURN), on a never-compacted store holding `copies`
//!           disjoint copies of the history so that the >=256-row parallel filter path really runs.  The distinct
//!           outcomes of a query are logged once each with the configurations that produced them (`outs`).
//! A step {"op":"Cypher","text":..} executes raw text (development probe; not part of any generated script).
use samyama::graph::{EdgeId, GraphStore, Label, NodeId, PropertyMap, PropertyValue};
use samyama::query::executor::planner::{PlannerConfig, QueryPlanner};
use samyama::query::executor::record::Value as QV;
use samyama::query::{parse_query, QueryEngine, QueryExecutor, RecordBatch};
use serde_json::{json, Map, Value};
use std::collections::{BTreeMap, HashMap};
use verif_harness::*;

// ------------------------------------------------------------------------------------------------ values
fn pv_of(v: &Value) -> Option<PropertyValue> {
    match v["k"].as_str().unwrap_or("?") {
        "I" => Some(PropertyValue::Integer(v["n"].as_i64().unwrap())),
        "F" => Some(PropertyValue::Float(v["n"].as_i64().unwrap() as f64 / 2.0)),
        "S" => Some(PropertyValue::String(v["s"].as_str().unwrap().to_string())),
        "B" => Some(PropertyValue::Boolean(v["n"].as_i64().unwrap() == 1)),
        "N" => None,
        "L" => Some(PropertyValue::Array(v["l"].as_array().unwrap().iter().map(|x| pv_of(x).unwrap_or(PropertyValue::Null)).collect())),
        k => panic!("value kind {k}"),
    }
}
fn tok(k: &str, n: i64, s: &str) -> Value {
    json!({"k": k, "n": n, "s": s})
}
fn tok_pv(p: &PropertyValue) -> Value {
    match p {
        PropertyValue::Integer(i) if i.abs() < 1_000_000 => tok("I", *i, ""),
        PropertyValue::Float(f) if (f * 2.0).fract() == 0.0 && f.abs() < 1e6 => tok("F", (f * 2.0) as i64, ""),
        PropertyValue::String(s) => tok("S", 0, s),
        PropertyValue::Boolean(b) => tok("B", *b as i64, ""),
        PropertyValue::Null => tok("N", 0, ""),
        PropertyValue::Array(a) => json!({"k": "L", "n": 0, "s": "", "l": a.iter().map(tok_pv).collect::<Vec<_>>()}),
        other => tok("X", 0, &format!("{other:?}")),
    }
}
struct Handles {
    node: HashMap<u64, i64>, // real id -> newest handle
    rel: HashMap<u64, i64>,
}
fn tok_qv(v: &QV, h: &Handles) -> Value {
    let nh = |id: u64| h.node.get(&id).map(|x| tok("V", *x, "")).unwrap_or_else(|| tok("X", 0, &format!("node#{id}")));
    let rh = |id: u64| h.rel.get(&id).map(|x| tok("E", *x, "")).unwrap_or_else(|| tok("X", 0, &format!("rel#{id}")));
    match v {
        QV::Node(id, _) | QV::NodeRef(id) => nh(id.as_u64()),
        QV::Edge(id, _) | QV::EdgeRef(id, _, _, _) => rh(id.as_u64()),
        QV::Property(p) => tok_pv(p),
        QV::Null => tok("N", 0, ""),
        QV::List(l) => json!({"k": "L", "n": 0, "s": "", "l": l.iter().map(|x| tok_qv(x, h)).collect::<Vec<_>>()}),
        other => tok("X", 0, &format!("{other:?}").chars().take(80).collect::<String>()),
    }
}

// ------------------------------------------------------------------------------------------------ renderer
/// which literal slots become $parameters: "" (none) | "where" | "ret" | "with" | "order" | "inline" | "unwind" |
/// "list" | "elem" | "skiplimit" | "all"
struct Rend<'a> {
    pm: &'a str,
    params: HashMap<String, PropertyValue>,
    shape: bool, // render the shape key instead of the text
}
impl<'a> Rend<'a> {
    fn lit(&mut self, v: &Value, pos: &str) -> String {
        if self.shape {
            return v["k"].as_str().unwrap().to_string();
        }
        if self.pm == "all" || self.pm == pos {
            let name = format!("p{}", self.params.len());
            self.params.insert(name.clone(), pv_of(v).unwrap_or(PropertyValue::Null));
            return format!("${name}");
        }
        lit_text(v)
    }
    fn expr(&mut self, x: &Value, pos: &str) -> String {
        let e = gs(x, "e");
        match e {
            "lit" => self.lit(&x["v"], pos),
            "prop" => format!("{}.{}", gs(x, "x"), self.key(gs(x, "key"))),
            "var" => gs(x, "x").to_string(),
            "cmp" => format!("({} {} {})", self.expr(&x["a"], pos), gs(x, "op"), self.expr(&x["b"], pos)),
            "and" | "or" | "xor" => format!("({} {} {})", self.expr(&x["a"], pos), e.to_uppercase(), self.expr(&x["b"], pos)),
            "not" => format!("(NOT {})", self.expr(&x["a"], pos)),
            "isnull" => format!("({} IS NULL)", self.expr(&x["a"], pos)),
            "notnull" => format!("({} IS NOT NULL)", self.expr(&x["a"], pos)),
            "in" => format!("({} IN {})", self.expr(&x["a"], pos), self.expr(&x["b"], pos)),
            "list" => {
                let its = x["items"].as_array().unwrap();
                let all_lit = its.iter().all(|i| gs(i, "e") == "lit");
                // class "list" (and "unwind" for the UNWIND operand): the whole list literal is one parameter;
                // class "elem": every element is a parameter
                if !self.shape && all_lit && (self.pm == "list" || self.pm == "all" || (self.pm == "unwind" && pos == "unwind")) {
                    let name = format!("p{}", self.params.len());
                    let arr = its.iter().map(|i| pv_of(&i["v"]).unwrap_or(PropertyValue::Null)).collect();
                    self.params.insert(name.clone(), PropertyValue::Array(arr));
                    return format!("${name}");
                }
                let p = if self.pm == "elem" { "elem" } else { pos };
                let items: Vec<String> = its.iter().map(|i| self.expr(i, p)).collect();
                format!("[{}]", items.join(", "))
            }
            "cstar" => "count(*)".to_string(),
            "agg" => format!("{}({}{})", gs(x, "f"), if x["d"].as_bool().unwrap_or(false) { "DISTINCT " } else { "" }, self.expr(&x["a"], pos)),
            other => panic!("expression {other}"),
        }
    }
    fn key(&self, k: &str) -> String {
        if self.shape { "k".into() } else { k.to_string() }
    }
    fn props(&mut self, ps: &Value) -> String {
        let a = ps.as_array().unwrap();
        if a.is_empty() {
            return String::new();
        }
        let items: Vec<String> = a.iter().map(|p| format!("{}: {}", self.key(gs(p, "key")), self.expr(&p["v"], "inline"))).collect();
        format!(" {{{}}}", items.join(", "))
    }
    fn node(&mut self, n: &Value) -> String {
        let labels: String = n["labels"].as_array().unwrap().iter().map(|l| format!(":{}", if self.shape { "L" } else { l.as_str().unwrap() })).collect();
        format!("({}{}{})", gs(n, "x"), labels, self.props(&n["props"]))
    }
    fn rel(&mut self, r: &Value) -> String {
        let types: Vec<String> = r["types"].as_array().unwrap().iter().map(|t| if self.shape { "T".to_string() } else { t.as_str().unwrap().to_string() }).collect();
        let ty = if types.is_empty() { String::new() } else { format!(":{}", types.join("|")) };
        let vl = if r["vl"].as_bool().unwrap_or(false) { format!("*{}..{}", gi(r, "lo"), gi(r, "hi")) } else { String::new() };
        let inner = format!("{}{}{}{}", gs(r, "x"), ty, vl, self.props(&r["props"]));
        let det = if inner.is_empty() { String::new() } else { format!("[{inner}]") };
        match gs(r, "dir") {
            "out" => format!("-{det}->"),
            "in" => format!("<-{det}-"),
            _ => format!("-{det}-"),
        }
    }
    fn path(&mut self, p: &Value) -> String {
        let mut s = self.node(&p["start"]);
        for seg in p["segs"].as_array().unwrap() {
            s += &self.rel(&seg["rel"]);
            s += &self.node(&seg["node"]);
        }
        let s = match gs(p, "sp") {
            "shortest" => format!("shortestPath({s})"),
            "all" => format!("allShortestPaths({s})"),
            _ => s,
        };
        if gs(p, "pv").is_empty() { s } else { format!("{} = {}", gs(p, "pv"), s) }
    }
    fn items(&mut self, c: &Value, pos: &str) -> String {
        let items: Vec<String> = c["items"].as_array().unwrap().iter().map(|i| {
            let e = self.expr(&i["e"], pos);
            if gs(i, "as").is_empty() || (gs(&i["e"], "e") == "var" && gs(&i["e"], "x") == gs(i, "as")) { e } else { format!("{} AS {}", e, gs(i, "as")) }
        }).collect();
        format!("{}{}", if c["distinct"].as_bool().unwrap() { "DISTINCT " } else { "" }, items.join(", "))
    }
    fn tail(&mut self, c: &Value) -> String {
        let mut s = String::new();
        let ord = c["order"].as_array().unwrap();
        if !ord.is_empty() {
            let items: Vec<String> = ord.iter().map(|o| format!("{}{}", self.expr(&o["e"], "order"), if o["asc"].as_bool().unwrap() { "" } else { " DESC" })).collect();
            s += &format!(" ORDER BY {}", items.join(", "));
        }
        for (k, kw) in [("skip", "SKIP"), ("limit", "LIMIT")] {
            let n = gi(c, k);
            if n >= 0 {
                let v = tok("I", n, "");
                let t = if self.shape { "I".to_string() } else { self.lit(&v, "skiplimit") };
                s += &format!(" {kw} {t}");
            }
        }
        s
    }
    fn clause(&mut self, c: &Value) -> String {
        match gs(c, "c") {
            "match" => {
                let paths: Vec<String> = c["paths"].as_array().unwrap().iter().map(|p| self.path(p)).collect();
                let mut s = format!("{}MATCH {}", if c["opt"].as_bool().unwrap() { "OPTIONAL " } else { "" }, paths.join(", "));
                if gs(&c["where"], "e") != "none" {
                    s += &format!(" WHERE {}", self.expr(&c["where"], "where"));
                }
                s
            }
            "unwind" => format!("UNWIND {} AS {}", self.expr(&c["list"], "unwind"), gs(c, "as")),
            "with" => {
                let mut s = format!("WITH {}", self.items(c, "with"));
                s += &self.tail(c);
                if gs(&c["where"], "e") != "none" {
                    s += &format!(" WHERE {}", self.expr(&c["where"], "with"));
                }
                s
            }
            "return" => format!("RETURN {}{}", self.items(c, "ret"), self.tail(c)),
            other => panic!("clause {other}"),
        }
    }
    fn query(&mut self, q: &Value) -> String {
        let parts: Vec<String> = q["parts"].as_array().unwrap().iter().map(|p| {
            p["clauses"].as_array().unwrap().iter().map(|c| self.clause(c)).collect::<Vec<_>>().join(" ")
        }).collect();
        parts.join(if q["all"].as_bool().unwrap() { " UNION ALL " } else { " UNION " })
    }
}
fn lit_text(v: &Value) -> String {
    match gs(v, "k") {
        "I" => format!("{}", gi(v, "n")),
        "F" => {
            let n = gi(v, "n");
            format!("{}{}.{}", if n < 0 { "-" } else { "" }, n.abs() / 2, if n % 2 == 0 { "0" } else { "5" })
        }
        "S" => format!("'{}'", gs(v, "s")),
        "B" => (if gi(v, "n") == 1 { "true" } else { "false" }).to_string(),
        "N" => "null".to_string(),
        "L" => format!("[{}]", v["l"].as_array().unwrap().iter().map(lit_text).collect::<Vec<_>>().join(", ")),
        k => panic!("literal kind {k}"),
    }
}
fn render(q: &Value, pm: &str) -> (String, HashMap<String, PropertyValue>) {
    let mut r = Rend { pm, params: HashMap::new(), shape: false };
    let t = r.query(q);
    (t, r.params)
}
fn shape_of(q: &Value) -> String {
    Rend { pm: "", params: HashMap::new(), shape: true }.query(q)
}
/// does the last clause of the first part order its result?
fn is_ordered(q: &Value) -> bool {
    let parts = q["parts"].as_array().unwrap();
    if parts.len() != 1 {
        return false;
    }
    parts[0]["clauses"].as_array().unwrap().last().map(|c| !c["order"].as_array().map(|o| o.is_empty()).unwrap_or(true)).unwrap_or(false)
}

// ------------------------------------------------------------------------------------------------ execution
fn native() -> bool {
    std::env::var("SAMYAMA_GRAPH_NATIVE").unwrap_or_default() == "true"
}
fn outcome(res: Result<Result<RecordBatch, String>, String>, h: &Handles, ordered: bool, copies: i64) -> Value {
    match res {
        Err(p) => json!({"res": "panic", "msg": p.chars().take(200).collect::<String>(), "cols": [], "ord": false, "rows": []}),
        Ok(Err(e)) => json!({"res": "err", "msg": e.chars().take(200).collect::<String>(), "cols": [], "ord": false, "rows": []}),
        Ok(Ok(b)) => {
            let rows: Vec<Vec<Value>> = b.records.iter().map(|r| {
                b.columns.iter().map(|c| r.get(c).map(|v| tok_qv(v, h)).unwrap_or_else(|| tok("X", 0, "unbound column"))).collect()
            }).collect();
            let listed: Vec<Value> = if ordered {
                rows.into_iter().map(|r| json!({"r": r, "m": 1})).collect()
            } else {
                let mut bag: BTreeMap<String, (Vec<Value>, i64)> = BTreeMap::new();
                for r in rows {
                    bag.entry(serde_json::to_string(&r).unwrap()).or_insert((r, 0)).1 += 1;
                }
                bag.into_values().map(|(r, m)| json!({"r": r, "m": m})).collect()
            };
            json!({"res": "ok", "msg": "", "cols": b.columns, "ord": ordered, "rows": listed, "copies": copies})
        }
    }
}
fn exec_text(store: &GraphStore, text: &str, params: Option<HashMap<String, PropertyValue>>) -> Result<Result<RecordBatch, String>, String> {
    catch(|| match params {
        None => QueryEngine::new().execute(text, store).map_err(|e| e.to_string()),
        Some(p) => {
            let q = parse_query(text).map_err(|e| format!("parse: {e}"))?;
            let ex = if native() {
                QueryExecutor::with_planner(store, QueryPlanner::with_config(PlannerConfig { graph_native: true, max_candidate_plans: 64 }))
            } else {
                QueryExecutor::new(store)
            };
            ex.with_params(p).execute(&q).map_err(|e| e.to_string())
        }
    })
}

// ------------------------------------------------------------------------------------------------ graph histories
const LABELS: [&str; 2] = ["A", "B"];
const KEYS: [&str; 2] = ["p", "q"];

struct World {
    copies: usize,
    store: GraphStore,
    hn: Vec<Vec<u64>>, // copy -> node handle-1 -> real id
    hr: Vec<Vec<u64>>,
    h: Handles,
    engine: QueryEngine,
    last_id: u64,
}
impl World {
    fn new(copies: usize) -> Self {
        World { copies, store: GraphStore::new(), hn: vec![Vec::new(); copies], hr: vec![Vec::new(); copies],
                h: Handles { node: HashMap::new(), rel: HashMap::new() }, engine: QueryEngine::new(), last_id: 0 }
    }
    /// apply one graph step to every copy; returns the distinct results ("ok"/"err"); `self.last_id` = the real id the
    /// first copy gave to a created node / relationship
    fn apply(&mut self, step: &Value, do_index: bool, do_compact: bool) -> Vec<String> {
        self.last_id = 0;
        let op = gs(step, "op");
        let mut res: Vec<String> = Vec::new();
        let mut note = |r: bool| {
            let s = if r { "ok" } else { "err" }.to_string();
            if !res.contains(&s) {
                res.push(s);
            }
        };
        match op {
            "Compact" => {
                if do_compact {
                    // compact_adjacency reports to stderr on every call: silence it for the duration of the call
                    unsafe {
                        let saved = libc::dup(2);
                        let null = libc::open(b"/dev/null\0".as_ptr() as *const libc::c_char, libc::O_WRONLY);
                        libc::dup2(null, 2);
                        self.store.compact_adjacency();
                        libc::dup2(saved, 2);
                        libc::close(saved);
                        libc::close(null);
                    }
                }
                note(true);
            }
            "CreateIndex" => {
                if do_index {
                    for l in LABELS {
                        for k in KEYS {
                            let r = self.engine.execute_mut(&format!("CREATE INDEX ON :{l}({k})"), &mut self.store, "default");
                            note(r.is_ok());
                        }
                    }
                } else {
                    note(true);
                }
            }
            _ => {
                for c in 0..self.copies {
                    match op {
                        "CreateNode" => {
                            let labels: Vec<Label> = step["labels"].as_array().unwrap().iter().map(|l| Label::new(l.as_str().unwrap())).collect();
                            let id = self.store.create_node_with_labels(labels);
                            let mut ok = true;
                            for k in KEYS {
                                if let Some(v) = pv_of(&step[k]) {
                                    ok &= self.store.set_node_property("default", id, k, v).is_ok();
                                }
                            }
                            self.hn[c].push(id.as_u64());
                            if c == 0 {
                                self.last_id = id.as_u64();
                            }
                            self.h.node.insert(id.as_u64(), self.hn[c].len() as i64);
                            note(ok);
                        }
                        "CreateRel" => {
                            let s = self.hn[c][gi(step, "s") as usize - 1];
                            let d = self.hn[c][gi(step, "d") as usize - 1];
                            let mut pm = PropertyMap::new();
                            if let Some(v) = pv_of(&step["p"]) {
                                pm.insert("p".to_string(), v);
                            }
                            match self.store.create_edge_with_properties(NodeId::new(s), NodeId::new(d), gs(step, "t"), pm) {
                                Ok(e) => {
                                    if c == 0 {
                                        self.last_id = e.as_u64();
                                    }
                                    self.hr[c].push(e.as_u64());
                                    self.h.rel.insert(e.as_u64(), self.hr[c].len() as i64);
                                    note(true);
                                }
                                Err(_) => {
                                    self.hr[c].push(u64::MAX);
                                    note(false);
                                }
                            }
                        }
                        "DeleteNode" => {
                            let n = self.hn[c][gi(step, "n") as usize - 1];
                            note(self.store.delete_node("default", NodeId::new(n)).is_ok());
                        }
                        "DeleteRel" => {
                            let r = self.hr[c][gi(step, "r") as usize - 1];
                            note(self.store.delete_edge(EdgeId::new(r)).is_ok());
                        }
                        "SetNodeProp" => {
                            let n = self.hn[c][gi(step, "n") as usize - 1];
                            let v = pv_of(&step["v"]).expect("SetNodeProp with null");
                            note(self.store.set_node_property("default", NodeId::new(n), gs(step, "key"), v).is_ok());
                        }
                        "RemoveNodeProp" => {
                            let n = self.hn[c][gi(step, "n") as usize - 1];
                            self.store.remove_node_property(NodeId::new(n), gs(step, "key"));
                            note(true);
                        }
                        "SetRelProp" => {
                            let r = self.hr[c][gi(step, "r") as usize - 1];
                            let v = pv_of(&step["v"]).expect("SetRelProp with null");
                            note(self.store.set_edge_property(EdgeId::new(r), "p", v).is_ok());
                        }
                        "AddLabel" => {
                            let n = self.hn[c][gi(step, "n") as usize - 1];
                            note(self.store.add_label_to_node("default", NodeId::new(n), Label::new(gs(step, "label"))).is_ok());
                        }
                        "RemoveLabel" => {
                            let n = self.hn[c][gi(step, "n") as usize - 1];
                            note(self.store.remove_label_from_node(NodeId::new(n), &Label::new(gs(step, "label"))).is_ok());
                        }
                        other => panic!("unknown op {other}"),
                    }
                }
            }
        }
        res.sort();
        res
    }
}

fn run(scripts: &str, trace: &str, opts: &Opts) -> Res<()> {
    let mode = opts.get_str("mode", "c01");
    let copies = opts.get_u64("copies", 260) as usize;
    let proc_tag = opts.get_str("proc", "1");
    let scripts = read_scripts(scripts)?;
    let mut tr = Trace::create(trace)?;
    for s in &scripts {
        tr.reset(&s.sid)?;
        if mode != "c02" {
            let mut w = World::new(1);
            for step in &s.steps {
                let op = gs(step, "op");
                if op == "Cypher" {
                    // development probe: raw text
                    let r = exec_text(&w.store, gs(step, "text"), None);
                    tr.emit(event_from(step, json!({"out": outcome(r, &w.h, true, 1)})))?;
                } else if op == "Query" {
                    let q = &step["q"];
                    let ordered = is_ordered(q);
                    let (text, _) = render(q, "");
                    let out = outcome(exec_text(&w.store, &text, None), &w.h, ordered, 1);
                    let mut x = json!({"text": text, "shape": shape_of(q), "out": out});
                    if mode == "c35" {
                        // every position class that holds at least one literal of this query, and all of them together
                        let mut pouts = Vec::new();
                        for pm in ["where", "ret", "with", "order", "inline", "unwind", "list", "elem", "skiplimit", "all"] {
                            let (ptext, params) = render(q, pm);
                            if params.is_empty() || (pm == "all" && pouts.len() < 2) {
                                continue;
                            }
                            let np = params.len();
                            let pout = outcome(exec_text(&w.store, &ptext, Some(params)), &w.h, ordered, 1);
                            pouts.push(json!({"pm": pm, "ptext": ptext, "np": np, "out": pout}));
                        }
                        x["pouts"] = json!(pouts);
                    }
                    tr.emit(event_from(step, x))?;
                } else {
                    let r = catch(|| w.apply(step, true, true)).unwrap_or_else(|p| vec![format!("panic:{p}")]);
                    tr.emit(event_from(step, json!({"res": r, "id": w.last_id})))?;
                }
            }
            continue;
        }
        // ---- C02: the configuration matrix
        let any_lin = s.steps.iter().any(|st| gs(st, "op") == "Query" && st["lin"].as_bool().unwrap_or(false));
        let mut per_step: Vec<Map<String, Value>> = s.steps.iter().map(|_| Map::new()).collect();
        // step index -> distinct outcome json string -> (outcome, cfgs)
        let mut outs: Vec<BTreeMap<String, (Value, Vec<String>)>> = s.steps.iter().map(|_| BTreeMap::new()).collect();
        let mut ress: Vec<Vec<String>> = s.steps.iter().map(|_| Vec::new()).collect();
        let mut ids: Vec<Vec<u64>> = s.steps.iter().map(|_| Vec::new()).collect();
        for k in if any_lin { vec![1usize, copies] } else { vec![1usize] } {
            for idx in [false, true] {
                for cmp in [false, true] {
                    // The copies are disjoint logically but share the id free lists: a stale frozen entry of one copy
                    // would be revived by a relationship of another copy, so the inflated store is never compacted.
                    if k > 1 && cmp {
                        continue;
                    }
                    let mut w = World::new(k);
                    for (i, step) in s.steps.iter().enumerate() {
                        if gs(step, "op") != "Query" {
                            let r = catch(|| w.apply(step, idx, cmp)).unwrap_or_else(|p| vec![format!("panic:{p}")]);
                            for x in r {
                                if !ress[i].contains(&x) {
                                    ress[i].push(x);
                                }
                            }
                            if !ids[i].contains(&w.last_id) {
                                ids[i].push(w.last_id);
                            }
                            continue;
                        }
                        if k > 1 && !step["lin"].as_bool().unwrap_or(false) {
                            continue;
                        }
                        let q = &step["q"];
                        let ordered = is_ordered(q);
                        let (text, _) = render(q, "");
                        per_step[i].insert("text".into(), json!(text));
                        per_step[i].insert("shape".into(), json!(shape_of(q)));
                        for nat in [false, true] {
                            for par in [false, true] {
                                if nat { std::env::set_var("SAMYAMA_GRAPH_NATIVE", "true") } else { std::env::remove_var("SAMYAMA_GRAPH_NATIVE") }
                                std::env::set_var("SAMYAMA_FILTER_PARALLEL_COST", if par { "0" } else { "1000000" });
                                let out = outcome(exec_text(&w.store, &text, None), &w.h, ordered, k as i64);
                                let cfg = format!("k{}{}{}{}{}:{}", k, if idx { "+idx" } else { "" }, if cmp { "+cmp" } else { "" },
                                                  if nat { "+nat" } else { "" }, if par { "+par" } else { "" }, proc_tag);
                                let key = serde_json::to_string(&out).unwrap();
                                let cfgrec = json!({"name": cfg, "k": k, "idx": idx, "cmp": cmp, "nat": nat, "par": par});
                                let e = outs[i].entry(key).or_insert((out, Vec::new()));
                                e.1.push(cfgrec.to_string());
                            }
                        }
                    }
                }
            }
        }
        std::env::remove_var("SAMYAMA_GRAPH_NATIVE");
        std::env::remove_var("SAMYAMA_FILTER_PARALLEL_COST");
        for (i, step) in s.steps.iter().enumerate() {
            if gs(step, "op") == "Query" {
                let list: Vec<Value> = outs[i].values().map(|(o, cfgs)| {
                    json!({"out": o, "cfgs": cfgs.iter().map(|c| serde_json::from_str::<Value>(c).unwrap()).collect::<Vec<_>>()})
                }).collect();
                per_step[i].insert("outs".into(), json!(list));
                tr.emit(event_from(step, Value::Object(per_step[i].clone())))?;
            } else {
                ress[i].sort();
                // the real id must not depend on the configuration (ids: one element); the spec binds it
                tr.emit(event_from(step, json!({"res": ress[i], "id": ids[i][0], "ids": ids[i]})))?;
            }
        }
    }
    tr.finish()
}

fn main() {
    std::panic::set_hook(Box::new(|_| {}));
    harness_main(run);
}
