//! C25: parse_query never panics and never silently changes numbers (src/query/parser.rs).
//!
//! Every text is parsed in a WORKER process (this binary re-executed with `--worker`) under
//! catch_unwind: a panic is reported as res:"panic", a dead worker (abort, stack overflow) as
//! res:"abort" and the worker is restarted.  For an accepted query the numbers the AST carries
//! are logged as decimal STRINGS ("none" = absent): variable-length bounds, SKIP/LIMIT of the
//! query and of its WITH clause, the numeric literals of the first RETURN item, of the WHERE
//! predicate, and of property `v` in the first MATCH / CREATE node pattern.
use samyama::graph::PropertyValue;
use samyama::query::ast::{Expression, Query, UnaryOp};
use samyama::query::parse_query;
use serde_json::{json, Value};
use std::io::{BufRead, BufReader, Write};
use std::process::{Child, ChildStdin, ChildStdout, Command, Stdio};
use verif_harness::*;

fn fnum(f: f64) -> String {
    format!("{f:?}")
}

fn pv_nums(v: &PropertyValue, out: &mut Vec<String>) {
    match v {
        PropertyValue::Integer(i) => out.push(i.to_string()),
        PropertyValue::Float(f) => out.push(fnum(*f)),
        PropertyValue::Array(a) => a.iter().for_each(|x| pv_nums(x, out)),
        PropertyValue::Vector(a) => a.iter().for_each(|x| out.push(format!("f32:{x:?}"))),
        _ => {}
    }
}

/// numeric literals of an expression, in source order; a unary minus negates the first one below it
fn expr_nums(e: &Expression, out: &mut Vec<String>) {
    match e {
        Expression::Literal(v) => pv_nums(v, out),
        Expression::Unary { op, expr } => {
            let at = out.len();
            expr_nums(expr, out);
            if matches!(op, UnaryOp::Minus) && out.len() > at {
                let s = out[at].clone();
                out[at] = match s.strip_prefix('-') {
                    Some(r) => r.to_string(),
                    None => format!("-{s}"),
                };
            }
        }
        Expression::Binary { left, right, .. } => {
            expr_nums(left, out);
            expr_nums(right, out);
        }
        Expression::Function { args, .. } => args.iter().for_each(|a| expr_nums(a, out)),
        Expression::ListExpr(xs) => xs.iter().for_each(|a| expr_nums(a, out)),
        Expression::MapExpr(xs) => xs.iter().for_each(|(_, a)| expr_nums(a, out)),
        _ => {}
    }
}

fn opt(n: Option<usize>) -> String {
    n.map(|x| x.to_string()).unwrap_or_else(|| "none".into())
}
fn nth(v: &[String], i: usize) -> String {
    v.get(i).cloned().unwrap_or_else(|| "none".into())
}

fn observe(q: &Query) -> Value {
    let len = q
        .match_clauses
        .iter()
        .flat_map(|m| m.pattern.paths.iter())
        .flat_map(|p| p.segments.iter())
        .find_map(|s| s.edge.length.clone());
    let (min, max) = match &len {
        Some(l) => (opt(l.min), opt(l.max)),
        None => ("none".into(), "none".into()),
    };
    let mut lits = Vec::new();
    if let Some(r) = &q.return_clause {
        if let Some(it) = r.items.first() {
            expr_nums(&it.expression, &mut lits);
        }
    }
    let mut wl = Vec::new();
    if let Some(w) = &q.where_clause {
        expr_nums(&w.predicate, &mut wl);
    }
    let prop_v = |props: &Option<std::collections::HashMap<String, PropertyValue>>| -> String {
        let mut o = Vec::new();
        if let Some(p) = props {
            if let Some(v) = p.get("v") {
                pv_nums(v, &mut o);
            }
        }
        nth(&o, 0)
    };
    let plit = q.match_clauses.first().and_then(|m| m.pattern.paths.first()).map(|p| prop_v(&p.start.properties)).unwrap_or_else(|| "none".into());
    let clit = q.create_clause.as_ref().and_then(|c| c.pattern.paths.first()).map(|p| prop_v(&p.start.properties)).unwrap_or_else(|| "none".into());
    let (wskip, wlimit) = match &q.with_clause {
        Some(w) => (opt(w.skip), opt(w.limit)),
        None => ("none".into(), "none".into()),
    };
    json!({"min": min, "max": max, "skip": opt(q.skip), "limit": opt(q.limit), "wskip": wskip, "wlimit": wlimit,
           "lit": nth(&lits, 0), "lit2": nth(&lits, 1), "wlit": nth(&wl, 0), "plit": plit, "clit": clit})
}

fn worker() {
    std::panic::set_hook(Box::new(|_| {}));
    let stdin = std::io::stdin();
    let mut out = std::io::stdout();
    for line in stdin.lock().lines() {
        let line = match line {
            Ok(l) => l,
            Err(_) => break,
        };
        let text: String = serde_json::from_str(&line).unwrap_or_default();
        let r = catch(|| parse_query(&text).map(|q| observe(&q)).map_err(|_| ()));
        let v = match r {
            Err(p) => json!({"res": "panic", "obs": {"panic": p.chars().take(120).collect::<String>()}}),
            Ok(Err(())) => json!({"res": "err", "obs": {}}),
            Ok(Ok(o)) => json!({"res": "ok", "obs": o}),
        };
        let _ = writeln!(out, "{v}");
        let _ = out.flush();
    }
}

struct Worker {
    child: Child,
    tx: ChildStdin,
    rx: BufReader<ChildStdout>,
}
impl Worker {
    fn spawn() -> Res<Worker> {
        let mut child = Command::new(std::env::current_exe()?).arg("--worker").stdin(Stdio::piped()).stdout(Stdio::piped()).stderr(Stdio::null()).spawn()?;
        let tx = child.stdin.take().unwrap();
        let rx = BufReader::new(child.stdout.take().unwrap());
        Ok(Worker { child, tx, rx })
    }
    /// None: the worker died on this text
    fn ask(&mut self, text: &str) -> Option<Value> {
        if writeln!(self.tx, "{}", serde_json::to_string(text).unwrap()).is_err() || self.tx.flush().is_err() {
            return None;
        }
        let mut line = String::new();
        match self.rx.read_line(&mut line) {
            Ok(n) if n > 0 => serde_json::from_str(&line).ok(),
            _ => None,
        }
    }
}

fn run(scripts: &str, trace: &str, _opts: &Opts) -> Res<()> {
    let scripts = read_scripts(scripts)?;
    let mut tr = Trace::create(trace)?;
    let mut w = Worker::spawn()?;
    let mut restarts = 0;
    for s in &scripts {
        tr.reset(&s.sid)?;
        for step in &s.steps {
            let text = gs(step, "text");
            let v = match w.ask(text) {
                Some(v) => v,
                None => {
                    let _ = w.child.kill();
                    let _ = w.child.wait();
                    w = Worker::spawn()?;
                    restarts += 1;
                    json!({"res": "abort", "obs": {}})
                }
            };
            tr.emit(event_from(step, v))?;
        }
    }
    println!("worker restarts: {restarts}");
    tr.finish()
}

fn main() {
    if std::env::args().nth(1).as_deref() == Some("--worker") {
        worker();
        return;
    }
    harness_main(run);
}
