//! C24: the natural-language pipeline never hands back a mutating statement
//! (src/nlq/mod.rs NLQPipeline::text_to_cypher, src/http/handler.rs nlq_handler).
//!
//! The language model is a local HTTP server speaking the Ollama API (/api/generate) that answers
//! with the response text of the current step, so the REAL text_to_cypher (prompt, client,
//! extract_cypher, is_safe_query) runs unmodified: `via = pipeline` calls it directly,
//! `via = http` goes through POST /api/nlq of the real router (HttpServer::router).
//! A statement that is handed back is executed by the engine on a fresh copy of the fixed graph;
//! `mutated` compares full dumps (nodes, relationships, property/vector/hierarchy indexes,
//! constraints) before and after.  The original statement is executed the same way
//! (`stmt_mutates`) so that the recipe can check that the model's IsWrite is not vacuous.
use samyama::graph::GraphStore;
use samyama::nlq::NLQPipeline;
use samyama::persistence::tenant::{LLMProvider, NLQConfig};
use samyama::query::{parse_query, QueryEngine, QueryExecutor};
use serde_json::{json, Value};
use std::sync::{Arc, Mutex};
use verif_harness::*;

fn fixed_graph() -> GraphStore {
    let mut st = GraphStore::new();
    let e = QueryEngine::new();
    for q in [
        // Persons carry no relationships, so that a plain `DELETE n` is a write the engine really performs
        // (a connected node is refused without DETACH); KNOWS lives between the two cities.
        "CREATE (a:Person {name:'Al Ice', age:30})",
        "CREATE (b:Person {name:'Bob', age:25})",
        "CREATE (c:City {name:'a b'})-[:KNOWS {w:1}]->(e:City {name:'c d'})",
        "CREATE INDEX ON :Person(name)",
        "CREATE CONSTRAINT ON (c:City) ASSERT c.name IS UNIQUE",
        "CREATE HIERARCHY INDEX hx ON ()-[:KNOWS]->()",
    ] {
        e.execute_mut(q, &mut st, "default").expect("fixed graph");
    }
    st
}

fn dump(st: &GraphStore) -> String {
    let mut ns: Vec<String> = st
        .all_nodes()
        .iter()
        .map(|n| {
            let mut ls: Vec<String> = n.labels.iter().map(|l| l.as_str().to_string()).collect();
            ls.sort();
            let mut ps: Vec<String> = st.node_properties_full(n.id).iter().map(|(k, v)| format!("{k}={v:?}")).collect();
            ps.sort();
            format!("N{:?}{:?}{:?}", n.id, ls, ps)
        })
        .collect();
    ns.sort();
    let mut es: Vec<String> = st
        .all_edges()
        .iter()
        .map(|e| {
            let mut ps: Vec<String> = e.properties.iter().map(|(k, v)| format!("{k}={v:?}")).collect();
            ps.sort();
            format!("E{:?}:{:?}->{:?}:{:?}{:?}", e.id, e.source, e.target, e.edge_type, ps)
        })
        .collect();
    es.sort();
    let mut vx: Vec<String> = st.vector_index.list_indices().iter().map(|k| format!("{}.{}", k.label, k.property_key)).collect();
    vx.sort();
    let mut out = format!("{ns:?} {es:?} V{vx:?} n={} e={}", st.node_count(), st.edge_count());
    for q in ["SHOW INDEXES", "SHOW CONSTRAINTS", "SHOW HIERARCHY INDEXES"] {
        let r = parse_query(q).map_err(|e| e.to_string()).and_then(|ast| QueryExecutor::new(st).execute(&ast).map_err(|e| e.to_string()));
        let mut rows: Vec<String> = match r {
            Ok(b) => b
                .records
                .iter()
                .map(|rec| {
                    b.columns
                        .iter()
                        // byte counts and staleness flags of a hierarchy index are bookkeeping, not its definition
                        .filter(|c| !matches!(c.as_str(), "bytes" | "structural_bytes" | "rollup_bytes" | "stale" | "status"))
                        .map(|c| format!("{c}={:?}", rec.get(c)))
                        .collect::<Vec<_>>()
                        .join(",")
                })
                .collect(),
            Err(e) => vec![format!("ERR {e}")],
        };
        rows.sort();
        out.push_str(&format!(" {q}:{rows:?}"));
    }
    out
}

/// execute `text` through the engine's write path on a fresh fixed graph: (outcome, mutated)
fn exec_on_copy(text: &str) -> (&'static str, bool) {
    let mut st = fixed_graph();
    let before = dump(&st);
    let e = QueryEngine::new();
    let r = catch(|| e.execute_mut(text, &mut st, "default").map(|_| ()).map_err(|x| x.to_string()));
    let after = dump(&st);
    let outcome = match r {
        Err(_) => "panic",
        Ok(Err(_)) => "err",
        Ok(Ok(())) => "ok",
    };
    (outcome, before != after)
}

fn run(scripts: &str, trace: &str, _opts: &Opts) -> Res<()> {
    use axum::{routing::post, Json, Router};
    use tower::ServiceExt;
    let scripts = read_scripts(scripts)?;
    let mut tr = Trace::create(trace)?;
    std::panic::set_hook(Box::new(|_| {}));
    let rt = tokio::runtime::Builder::new_multi_thread().worker_threads(2).enable_all().build()?;
    // the "language model"
    let reply: Arc<Mutex<String>> = Arc::new(Mutex::new(String::new()));
    let r2 = reply.clone();
    let port = rt.block_on(async move {
        let app = Router::new().route(
            "/api/generate",
            post(move |Json(_b): Json<Value>| {
                let r = r2.clone();
                async move { Json(json!({"response": r.lock().unwrap().clone()})) }
            }),
        );
        let l = tokio::net::TcpListener::bind("127.0.0.1:0").await.unwrap();
        let port = l.local_addr().unwrap().port();
        tokio::spawn(async move { axum::serve(l, app).await.unwrap() });
        port
    });
    let base = format!("http://127.0.0.1:{port}");
    std::env::set_var("NLQ_PROVIDER", "ollama");
    std::env::set_var("NLQ_API_BASE_URL", &base);
    std::env::set_var("NLQ_MODEL", "mock");
    let pipe = NLQPipeline::new(NLQConfig {
        enabled: true,
        provider: LLMProvider::Ollama,
        model: "mock".into(),
        api_key: None,
        api_base_url: Some(base),
        system_prompt: None,
    })
    .map_err(|e| e.to_string())?;
    let router = samyama::http::HttpServer::new(Arc::new(tokio::sync::RwLock::new(fixed_graph())), 0).router();

    for s in &scripts {
        tr.reset(&s.sid)?;
        for step in &s.steps {
            assert_eq!(gs(step, "op"), "Nlq");
            let text = gs(step, "text");
            *reply.lock().unwrap() = text.to_string();
            // (res, cypher)
            let (res, cypher): (String, Option<String>) = if gs(step, "via") == "http" {
                let req = axum::http::Request::builder()
                    .method("POST")
                    .uri("/api/nlq")
                    .header("content-type", "application/json")
                    .body(axum::body::Body::from(json!({"question": "what is there?"}).to_string()))?;
                let r = catch(|| {
                    rt.block_on(async {
                        use http_body_util::BodyExt;
                        let r = router.clone().oneshot(req).await.unwrap();
                        let st = r.status().as_u16();
                        let b = r.into_body().collect().await.unwrap().to_bytes();
                        (st, serde_json::from_slice::<Value>(&b).unwrap_or(Value::Null))
                    })
                });
                match r {
                    Err(_) => ("panic".into(), None),
                    Ok((200, v)) => match v["cypher"].as_str() {
                        Some(c) => ("ok".into(), Some(c.to_string())),
                        None => ("error".into(), None),
                    },
                    Ok((400, v)) if v["error"].as_str().map(|e| e.starts_with("Validation error")).unwrap_or(false) => ("rejected".into(), None),
                    Ok((st, _)) => (format!("error{st}"), None),
                }
            } else {
                match catch(|| rt.block_on(pipe.text_to_cypher("what is there?", "(schema)"))) {
                    Err(_) => ("panic".into(), None),
                    Ok(Ok(c)) => ("ok".into(), Some(c)),
                    Ok(Err(samyama::nlq::NLQError::ValidationError(_))) => ("rejected".into(), None),
                    Ok(Err(e)) => (format!("error {e}"), None),
                }
            };
            let (exec, mutated) = match &cypher {
                Some(c) => exec_on_copy(c),
                None => ("none", false),
            };
            let (stmt_exec, stmt_mutates) = exec_on_copy(gs(step, "q"));
            tr.emit(event_from(
                step,
                json!({"res": res, "obs": {"cypher": cypher.unwrap_or_default(), "exec": exec, "mutated": mutated,
                                           "stmt_exec": stmt_exec, "stmt_mutates": stmt_mutates}}),
            ))?;
        }
    }
    tr.finish()
}

fn main() {
    harness_main(run);
}
