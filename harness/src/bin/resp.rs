//! C20 / C21 / C22: RESP protocol front end (src/protocol/resp.rs, server.rs, command.rs).
//!
//! Script steps (spec/MC_Resp.tla, spec/MC_RespProbe.tla) and what is executed for them:
//!   Open{wire} Deliver{chunk}* End      the read loop of server.rs::handle_connection driven in process:
//!                                       extend the BytesMut, then RespValue::decode until it asks for more;
//!                                       every value goes through CommandHandler::handle_command + encode.
//!                                       Trace: one Deliver event per read, one Decode event per decode call.
//!   LiveOpen{wire} LiveSend{chunk}* LiveClose   the same bytes written to a socket of a real RespServer
//!   BigOpen{c,n,wire} BigSend{pre,run,post}* BigClose   a live connection whose first frame is ECHO of n copies of
//!                                       byte c (tens of KB) followed by `wire`; chunks and the reply stay run-length
//!                                       encoded in script and trace (reply = head, first long run c^run, rest)
//!   Probe{bytes}                        one RespValue::decode call in a forked worker process (counting allocator)
//!   Exhaust{prefix,n,alpha}             a Probe (event "Case") for every string of length n with that prefix
//!   Big{kind:"nest",d,leaf}             a Probe of d array headers (+ leaf) without logging the bytes
//!   Cmd{args:[[part..]..]}              handle_command on an array of bulk strings + encode (part = text | bytes)
//!   Sweep{args,arg,evil}                a Cmd (event "SweepCmd") with `evil` inserted at every offset of one argument
//!
//! The code under test panicking or killing the process is data: res = "panic" / "abort".
use bytes::BytesMut;
use samyama::graph::GraphStore;
use samyama::protocol::{CommandHandler, RespError, RespServer, RespValue, ServerConfig};
use serde_json::{json, Value};
use std::alloc::{GlobalAlloc, Layout, System};
use std::io::{BufRead, BufReader, Read, Write};
use std::process::{Child, ChildStdin, ChildStdout, Command, Stdio};
use std::sync::atomic::{AtomicUsize, Ordering::SeqCst};
use std::sync::Arc;
use tokio::sync::RwLock;
use verif_harness::*;

// ------------------------------------------------------------------ counting allocator
struct Counting;
static CUR: AtomicUsize = AtomicUsize::new(0);
static PEAK: AtomicUsize = AtomicUsize::new(0);
fn grow(n: usize) {
    let c = CUR.fetch_add(n, SeqCst) + n;
    PEAK.fetch_max(c, SeqCst);
}
unsafe impl GlobalAlloc for Counting {
    unsafe fn alloc(&self, l: Layout) -> *mut u8 {
        let p = System.alloc(l);
        if !p.is_null() {
            grow(l.size());
        }
        p
    }
    unsafe fn alloc_zeroed(&self, l: Layout) -> *mut u8 {
        let p = System.alloc_zeroed(l);
        if !p.is_null() {
            grow(l.size());
        }
        p
    }
    unsafe fn dealloc(&self, p: *mut u8, l: Layout) {
        CUR.fetch_sub(l.size(), SeqCst);
        System.dealloc(p, l)
    }
    unsafe fn realloc(&self, p: *mut u8, l: Layout, new: usize) -> *mut u8 {
        let q = System.realloc(p, l, new);
        if !q.is_null() {
            if new >= l.size() {
                grow(new - l.size());
            } else {
                CUR.fetch_sub(l.size() - new, SeqCst);
            }
        }
        q
    }
}
#[global_allocator]
static GLOBAL: Counting = Counting;

// ------------------------------------------------------------------ JSON <-> values
fn bj(b: &[u8]) -> Value {
    Value::Array(b.iter().map(|x| json!(*x)).collect())
}
fn jb(v: &Value) -> Vec<u8> {
    v.as_array().map(|a| a.iter().map(|x| x.as_u64().unwrap_or(0) as u8).collect()).unwrap_or_default()
}
/// RespValue as the specification's value record
fn vj(v: &RespValue) -> Value {
    match v {
        RespValue::SimpleString(s) => json!({"t": "simple", "s": bj(s.as_bytes())}),
        RespValue::Error(s) => json!({"t": "error", "s": bj(s.as_bytes())}),
        RespValue::Integer(i) => json!({"t": "int", "s": bj(i.to_string().as_bytes())}),
        RespValue::BulkString(None) => json!({"t": "nullbulk"}),
        RespValue::BulkString(Some(d)) => json!({"t": "bulk", "s": bj(d)}),
        RespValue::Array(a) => json!({"t": "array", "a": a.iter().map(vj).collect::<Vec<_>>()}),
        RespValue::Null => json!({"t": "null"}),
    }
}
fn no_val() -> Value {
    json!({"t": "null"})
}
fn encode(v: &RespValue) -> Vec<u8> {
    let mut out = Vec::new();
    v.encode(&mut out).expect("encode to Vec cannot fail");
    out
}
/// one part list (text or byte array) -> bytes
fn parts(v: &Value) -> Vec<u8> {
    let mut out = Vec::new();
    match v {
        Value::String(s) => out.extend_from_slice(s.as_bytes()),
        Value::Array(ps) => {
            for p in ps {
                match p {
                    Value::String(s) => out.extend_from_slice(s.as_bytes()),
                    Value::Array(_) => out.extend(jb(p)),
                    Value::Number(n) => out.push(n.as_u64().unwrap_or(0) as u8),
                    _ => panic!("bad part {p}"),
                }
            }
        }
        _ => panic!("bad argument {v}"),
    }
    out
}
fn command(args: &[Vec<u8>]) -> RespValue {
    RespValue::Array(args.iter().map(|a| RespValue::BulkString(Some(a.clone()))).collect())
}

// ------------------------------------------------------------------ one decode call, measured
struct Outcome {
    res: &'static str,
    val: Value,
    rest: usize,
    peak: usize,
    errreply: Option<Vec<u8>>,
}
const CLAMP: usize = 2_000_000_000; // TLC integers are 32 bit

fn decode_measured(bytes: &[u8], want_val: bool) -> Outcome {
    let mut buf = BytesMut::from(bytes);
    let base = CUR.load(SeqCst);
    PEAK.store(base, SeqCst);
    let r = catch(|| RespValue::decode(&mut buf));
    let peak = PEAK.load(SeqCst).saturating_sub(base).min(CLAMP);
    let rest = buf.len();
    match r {
        Ok(Ok(Some(v))) => Outcome { res: "value", val: if want_val { vj(&v) } else { no_val() }, rest, peak, errreply: None },
        Ok(Ok(None)) | Ok(Err(RespError::Incomplete)) => Outcome { res: "need", val: no_val(), rest, peak, errreply: None },
        Ok(Err(e)) => {
            // what server.rs writes for a protocol error
            let er = encode(&RespValue::Error(format!("ERR {}", e)));
            Outcome { res: "error", val: no_val(), rest, peak, errreply: Some(er) }
        }
        Err(_) => Outcome { res: "panic", val: no_val(), rest, peak, errreply: None },
    }
}

fn kth(alpha: &[u8], m: usize, mut k: u64, out: &mut Vec<u8>) {
    let a = alpha.len() as u64;
    let start = out.len();
    out.resize(start + m, 0);
    for p in (0..m).rev() {
        out[start + p] = alpha[(k % a) as usize];
        k /= a;
    }
}
fn nest_bytes(d: usize, leaf: usize) -> Vec<u8> {
    let mut b = Vec::with_capacity(4 * (d + leaf));
    for _ in 0..d {
        b.extend_from_slice(b"*1\r\n");
    }
    for _ in 0..leaf {
        b.extend_from_slice(b":1\r\n");
    }
    b
}

// ------------------------------------------------------------------ worker process
fn outcome_line(i: u64, bytes: Option<&[u8]>, o: &Outcome) -> String {
    let mut v = json!({"i": i, "res": o.res, "val": o.val, "rest": o.rest, "peak": o.peak});
    if let Some(b) = bytes {
        v["bytes"] = bj(b);
    }
    if let Some(e) = &o.errreply {
        v["errreply"] = bj(e);
    }
    v.to_string()
}

fn worker_loop() {
    std::panic::set_hook(Box::new(|_| {}));
    let stdin = std::io::stdin();
    let stdout = std::io::stdout();
    let mut out = stdout.lock();
    for line in stdin.lock().lines() {
        let line = match line {
            Ok(l) => l,
            Err(_) => return,
        };
        let req: Value = serde_json::from_str(&line).expect("worker request");
        if let Some(b) = req.get("probe") {
            let bytes = jb(b);
            let o = decode_measured(&bytes, true);
            writeln!(out, "{}", outcome_line(0, None, &o)).unwrap();
        } else if let Some(e) = req.get("ex") {
            let prefix = jb(&e["prefix"]);
            let alpha = jb(&e["alpha"]);
            let n = e["n"].as_u64().unwrap() as usize;
            let m = n - prefix.len();
            let total = (alpha.len() as u64).pow(m as u32);
            let mut bytes = Vec::new();
            for k in e["from"].as_u64().unwrap()..total {
                bytes.clear();
                bytes.extend_from_slice(&prefix);
                kth(&alpha, m, k, &mut bytes);
                let mut o = decode_measured(&bytes, true);
                o.errreply = None;
                writeln!(out, "{}", outcome_line(k, Some(&bytes), &o)).unwrap();
                out.flush().unwrap();
            }
            writeln!(out, "{{\"done\":true}}").unwrap();
        } else if let Some(e) = req.get("nest") {
            let bytes = nest_bytes(e["d"].as_u64().unwrap() as usize, e["leaf"].as_u64().unwrap() as usize);
            let mut o = decode_measured(&bytes, false);
            o.errreply = None;
            writeln!(out, "{}", outcome_line(0, None, &o)).unwrap();
        }
        out.flush().unwrap();
    }
}

fn worker_main() {
    // the server decodes on tokio worker threads: 2 MiB of stack
    let h = std::thread::Builder::new().stack_size(2 * 1024 * 1024).spawn(worker_loop).unwrap();
    let _ = h.join();
}

struct Worker {
    child: Child,
    tx: ChildStdin,
    rx: BufReader<ChildStdout>,
    pub restarts: u64,
}
impl Worker {
    fn spawn() -> Res<Worker> {
        let exe = std::env::current_exe()?;
        let mut child = Command::new(exe).arg("--worker").stdin(Stdio::piped()).stdout(Stdio::piped()).stderr(Stdio::null()).spawn()?;
        let tx = child.stdin.take().unwrap();
        let rx = BufReader::new(child.stdout.take().unwrap());
        Ok(Worker { child, tx, rx, restarts: 0 })
    }
    fn restart(&mut self) -> Res<()> {
        let _ = self.child.kill();
        let _ = self.child.wait();
        let n = self.restarts + 1;
        *self = Worker::spawn()?;
        self.restarts = n;
        Ok(())
    }
    fn send(&mut self, req: &Value) -> Res<()> {
        writeln!(self.tx, "{}", req)?;
        self.tx.flush()?;
        Ok(())
    }
    /// next line of the worker, None when it died
    fn recv(&mut self) -> Option<Value> {
        let mut s = String::new();
        match self.rx.read_line(&mut s) {
            Ok(0) | Err(_) => None,
            Ok(_) => serde_json::from_str(&s).ok(),
        }
    }
    /// one request, one answer; a dead worker is the answer "abort"
    fn ask(&mut self, req: &Value) -> Res<Value> {
        if self.send(req).is_err() {
            self.restart()?;
            self.send(req)?;
        }
        match self.recv() {
            Some(v) => Ok(v),
            None => {
                self.restart()?;
                Ok(json!({"res": "abort", "val": no_val(), "rest": 0, "peak": 0}))
            }
        }
    }
}
impl Drop for Worker {
    fn drop(&mut self) {
        let _ = self.child.kill();
        let _ = self.child.wait();
    }
}

fn probe_event(ev: &str, extra: Value, r: &Value) -> Value {
    let mut e = json!({"ev": ev, "res": r["res"], "val": r["val"], "obs": {"rest": r["rest"], "peak": r["peak"]}});
    if let Some(x) = r.get("errreply") {
        e["errreply"] = x.clone();
    }
    for (k, v) in extra.as_object().unwrap() {
        e[k] = v.clone();
    }
    e
}

// ------------------------------------------------------------------ live server
struct Live {
    _rt: tokio::runtime::Runtime,
    port: u16,
}
impl Live {
    fn start() -> Res<Live> {
        let rt = tokio::runtime::Builder::new_multi_thread().worker_threads(2).enable_all().build()?;
        let port = {
            let l = std::net::TcpListener::bind("127.0.0.1:0")?;
            l.local_addr()?.port()
        };
        let cfg = ServerConfig { address: "127.0.0.1".into(), port, max_connections: 100, data_path: None };
        let server = RespServer::new(cfg, Arc::new(RwLock::new(GraphStore::new())));
        rt.spawn(async move {
            if let Err(e) = server.start().await {
                eprintln!("live server failed: {e}");
            }
        });
        for _ in 0..3000 {
            if std::net::TcpStream::connect(("127.0.0.1", port)).is_ok() {
                return Ok(Live { _rt: rt, port });
            }
            std::thread::sleep(std::time::Duration::from_millis(10));
        }
        Err("live server did not come up".into())
    }
}

// ------------------------------------------------------------------ main driver
fn run(scripts: &str, trace: &str, opts: &Opts) -> Res<()> {
    let scripts = read_scripts(scripts)?;
    let mut tr = Trace::create(trace)?;
    let rt = rt();
    let pause = std::time::Duration::from_micros(opts.get_u64("pause_us", 1500));
    let mut worker: Option<Worker> = None;
    let mut live: Option<Live> = None;
    let (mut aborts, mut panics) = (0u64, 0u64);
    std::panic::set_hook(Box::new(|_| {}));

    for s in &scripts {
        tr.reset(&s.sid)?;
        // per-script connection / command state
        let handler = CommandHandler::new(None);
        let store = Arc::new(RwLock::new(GraphStore::new()));
        let mut buffer = BytesMut::with_capacity(4096);
        let (mut ndec, mut nrep) = (0u64, 0u64);
        let mut dead = false; // the connection ended on an error: nothing more is driven
        let mut sock: Option<std::net::TcpStream> = None;
        let mut big_c = 0u8;

        for step in &s.steps {
            let op = gs(step, "op");
            match op {
                "Open" => {
                    tr.emit(event_from(step, json!({})))?;
                }
                "Deliver" => {
                    if dead {
                        continue;
                    }
                    // socket.read_buf(&mut buffer) appended the chunk
                    buffer.extend_from_slice(&jb(&step["chunk"]));
                    tr.emit(event_from(step, json!({"obs": {"buf": bj(&buffer)}})))?;
                    loop {
                        let r = catch(|| RespValue::decode(&mut buffer));
                        let (res, val, reply) = match r {
                            Ok(Ok(Some(v))) => {
                                let resp = rt.block_on(handler.handle_command(&v, &store));
                                ndec += 1;
                                nrep += 1;
                                ("value", vj(&v), encode(&resp))
                            }
                            Ok(Ok(None)) | Ok(Err(RespError::Incomplete)) => ("need", no_val(), vec![]),
                            Ok(Err(e)) => {
                                nrep += 1;
                                ("error", no_val(), encode(&RespValue::Error(format!("ERR {}", e))))
                            }
                            Err(_) => {
                                panics += 1;
                                ("panic", no_val(), vec![])
                            }
                        };
                        tr.emit(json!({"ev": "Decode", "res": res, "val": val, "reply": bj(&reply),
                            "obs": {"buf": bj(&buffer), "decoded": ndec, "replies": nrep}}))?;
                        if res != "value" {
                            dead = res != "need";
                            break;
                        }
                    }
                }
                "End" => {
                    if !dead {
                        tr.emit(event_from(step, json!({"obs": {"decoded": ndec, "replies": nrep, "buf": bj(&buffer)}})))?;
                    }
                }
                "LiveOpen" => {
                    if live.is_none() {
                        live = Some(Live::start()?);
                    }
                    let c = std::net::TcpStream::connect(("127.0.0.1", live.as_ref().unwrap().port))?;
                    c.set_nodelay(true)?;
                    c.set_read_timeout(Some(std::time::Duration::from_secs(10)))?;
                    sock = Some(c);
                    tr.emit(event_from(step, json!({})))?;
                }
                "LiveSend" => {
                    let c = sock.as_mut().expect("LiveSend before LiveOpen");
                    let ok = c.write_all(&jb(&step["chunk"])).and_then(|_| c.flush()).is_ok();
                    std::thread::sleep(pause);
                    tr.emit(event_from(step, json!({"written": ok})))?;
                }
                "LiveClose" => {
                    let mut c = sock.take().expect("LiveClose before LiveOpen");
                    let _ = c.shutdown(std::net::Shutdown::Write);
                    let mut got = Vec::new();
                    let eof = c.read_to_end(&mut got).is_ok();
                    tr.emit(event_from(step, json!({"eof": eof, "obs": {"replies": bj(&got)}})))?;
                }
                "BigOpen" => {
                    if live.is_none() {
                        live = Some(Live::start()?);
                    }
                    let c = std::net::TcpStream::connect(("127.0.0.1", live.as_ref().unwrap().port))?;
                    c.set_nodelay(true)?;
                    c.set_read_timeout(Some(std::time::Duration::from_secs(10)))?;
                    sock = Some(c);
                    big_c = gi(step, "c") as u8;
                    tr.emit(event_from(step, json!({})))?;
                }
                "BigSend" => {
                    let c = sock.as_mut().expect("BigSend before BigOpen");
                    let run = gi(step, "run") as usize;
                    let mut bytes = jb(&step["pre"]);
                    bytes.extend(std::iter::repeat(big_c).take(run));
                    bytes.extend(jb(&step["post"]));
                    let ok = c.write_all(&bytes).and_then(|_| c.flush()).is_ok();
                    // let the server take these bytes out of the socket before the next write arrives
                    std::thread::sleep(if bytes.len() > 1024 { pause * 3 } else { pause });
                    tr.emit(event_from(step, json!({"written": ok})))?;
                }
                "BigClose" => {
                    let mut c = sock.take().expect("BigClose before BigOpen");
                    let _ = c.shutdown(std::net::Shutdown::Write);
                    let mut got = Vec::new();
                    let eof = c.read_to_end(&mut got).is_ok();
                    // leave the first long run of one byte unexpanded
                    let (mut at, mut len) = (got.len(), 0usize);
                    let mut i = 0;
                    while i < got.len() {
                        let mut j = i;
                        while j < got.len() && got[j] == got[i] {
                            j += 1;
                        }
                        if j - i >= 32 {
                            at = i;
                            len = j - i;
                            break;
                        }
                        i = j;
                    }
                    let cbyte = if len > 0 { got[at] } else { 0 };
                    if at > 4096 {
                        // no run where one is expected and a lot of other bytes: log a prefix only
                        got.truncate(4096);
                        at = 4096;
                        len = 0;
                    }
                    let rest = &got[at + len..];
                    if rest.len() > 4096 {
                        // never expected; keep the trace small
                        tr.emit(event_from(step, json!({"eof": eof, "obs": {"head": bj(&got[..at]), "c": cbyte, "run": len,
                            "rest": bj(&rest[..4096]), "truncated": rest.len()}})))?;
                    } else {
                        tr.emit(event_from(step, json!({"eof": eof, "obs": {"head": bj(&got[..at]), "c": cbyte, "run": len, "rest": bj(rest)}})))?;
                    }
                }
                "Probe" => {
                    if worker.is_none() {
                        worker = Some(Worker::spawn()?);
                    }
                    let r = worker.as_mut().unwrap().ask(&json!({"probe": step["bytes"]}))?;
                    if r["res"] == "abort" {
                        aborts += 1;
                    }
                    tr.emit(probe_event("Probe", json!({"bytes": step["bytes"]}), &r))?;
                }
                "Big" => {
                    if worker.is_none() {
                        worker = Some(Worker::spawn()?);
                    }
                    let (d, leaf) = (gi(step, "d"), gi(step, "leaf"));
                    let mut r = worker.as_mut().unwrap().ask(&json!({"nest": {"d": d, "leaf": leaf}}))?;
                    if r["res"] == "abort" {
                        aborts += 1;
                    }
                    r["val"] = no_val();
                    let mut e = probe_event("Big", json!({"kind": "nest", "d": d, "leaf": leaf}), &r);
                    e["obs"]["n"] = json!(4 * d + 4 * leaf);
                    tr.emit(e)?;
                }
                "Exhaust" => {
                    if worker.is_none() {
                        worker = Some(Worker::spawn()?);
                    }
                    let w = worker.as_mut().unwrap();
                    tr.emit(event_from(step, json!({})))?;
                    let prefix = jb(&step["prefix"]);
                    let alpha = jb(&step["alpha"]);
                    let n = gi(step, "n") as usize;
                    let m = n - prefix.len();
                    let total = (alpha.len() as u64).pow(m as u32);
                    let mut next = 0u64;
                    while next < total {
                        w.send(&json!({"ex": {"prefix": step["prefix"], "alpha": step["alpha"], "n": n, "from": next}}))?;
                        loop {
                            match w.recv() {
                                Some(r) if r.get("done").is_some() => {
                                    if next != total {
                                        return Err("worker ended an enumeration early".into());
                                    }
                                    break;
                                }
                                Some(r) => {
                                    if r["i"].as_u64() != Some(next) {
                                        return Err("worker enumeration out of step".into());
                                    }
                                    tr.emit(probe_event("Case", json!({"bytes": r["bytes"]}), &r))?;
                                    next += 1;
                                }
                                None => {
                                    // the worker died on case `next`
                                    aborts += 1;
                                    let mut b = prefix.clone();
                                    kth(&alpha, m, next, &mut b);
                                    let r = json!({"res": "abort", "val": no_val(), "rest": 0, "peak": 0});
                                    tr.emit(probe_event("Case", json!({"bytes": bj(&b)}), &r))?;
                                    next += 1;
                                    w.restart()?;
                                    break;
                                }
                            }
                        }
                    }
                    tr.emit(json!({"ev": "ExhaustEnd"}))?;
                }
                "Cmd" => {
                    let args: Vec<Vec<u8>> = step["args"].as_array().unwrap().iter().map(parts).collect();
                    let cmd = command(&args);
                    let r = catch(|| encode(&rt.block_on(handler.handle_command(&cmd, &store))));
                    let (res, reply) = match r {
                        Ok(b) => ("ok", b),
                        Err(_) => {
                            panics += 1;
                            ("panic", vec![])
                        }
                    };
                    tr.emit(json!({"ev": "Cmd", "cmd": vj(&cmd), "res": res, "text": reply.escape_ascii().to_string(),
                        "obs": {"reply": bj(&reply)}}))?;
                }
                "Sweep" => {
                    let args: Vec<Vec<u8>> = step["args"].as_array().unwrap().iter().map(parts).collect();
                    let k = gi(step, "arg") as usize;
                    let evil = parts(&step["evil"]);
                    tr.emit(json!({"ev": "Sweep", "base": vj(&command(&args)), "arg": k, "evil": bj(&evil)}))?;
                    for pos in 0..=args[k - 1].len() {
                        let mut a = args.clone();
                        let mut x = a[k - 1][..pos].to_vec();
                        x.extend_from_slice(&evil);
                        x.extend_from_slice(&args[k - 1][pos..]);
                        a[k - 1] = x;
                        let cmd = command(&a);
                        let r = catch(|| encode(&rt.block_on(handler.handle_command(&cmd, &store))));
                        let (res, reply) = match r {
                            Ok(b) => ("ok", b),
                            Err(_) => {
                                panics += 1;
                                ("panic", vec![])
                            }
                        };
                        tr.emit(json!({"ev": "SweepCmd", "pos": pos, "cmd": vj(&cmd), "res": res,
                            "text": reply.escape_ascii().to_string(), "obs": {"reply": bj(&reply)}}))?;
                    }
                    tr.emit(json!({"ev": "SweepEnd"}))?;
                }
                _ => return Err(format!("unknown op {op}").into()),
            }
        }
    }
    let ev = tr.events;
    tr.finish()?;
    println!("{} scripts, {} events, {} worker aborts, {} panics", scripts.len(), ev, aborts, panics);
    Ok(())
}

fn main() {
    if std::env::args().nth(1).as_deref() == Some("--worker") {
        worker_main();
        return;
    }
    harness_main(run);
}
