//! C30: ColumnStore behaves as a map (src/graph/storage/columnar.rs).
//!
//! Two kinds of script lines:
//!  * {"sid","steps":[{"op":"Load"},{"op":"Set","row":<class 1..6>,"key":"a"|"b","val":"v1"|...},...]}
//!    TLC-generated, over ROW CLASSES; executed once per scenario named in `scenarios=` (a
//!    scenario = a pre-built column of key "a" + the instantiation of the six classes around its
//!    representation thresholds, which are computed with the real `dense_is_smaller`).
//!  * {"sid","random":{"seed":S,"events":N}}  seeded adversarial sequence generated here.
//! Every event logs the operation with the REAL row / value token and the reads of the touched
//! row and of a probe set; `Scan` events log a run-length compressed read of whole columns.
//! Nothing is compared here: TLC (ColumnMap_Trace.tla) judges every logged read.
use rand::rngs::StdRng;
use rand::seq::SliceRandom;
use rand::{Rng, SeedableRng};
use samyama::graph::storage::columnar::{dense_is_smaller, Column, ColumnData, ColumnStore};
use samyama::graph::PropertyValue;
use serde_json::{json, Value};
use std::collections::{BTreeMap, BTreeSet};
use verif_harness::*;

const KINDS: [&str; 4] = ["int", "str", "float", "bool"];

fn tok(v: &PropertyValue) -> String {
    match v {
        PropertyValue::Integer(i) => format!("i:{i}"),
        PropertyValue::String(s) => format!("s:{s}"),
        PropertyValue::Float(f) => format!("f:{f}"),
        PropertyValue::Boolean(b) => format!("b:{b}"),
        PropertyValue::Null => "null".to_string(),
        PropertyValue::DateTime(t) => format!("o:dt:{t}"),
        PropertyValue::Array(a) => format!("o:arr:{}", a.iter().map(tok).collect::<Vec<_>>().join(",")),
        PropertyValue::Vector(a) => format!("o:vec:{}", a.iter().map(|x| x.to_string()).collect::<Vec<_>>().join(",")),
        PropertyValue::Map(_) => "o:map".to_string(),
        PropertyValue::Duration { months, days, seconds, nanos } => format!("o:dur:{months}:{days}:{seconds}:{nanos}"),
    }
}

/// the value a bulk load writes at `row` (ColumnMap!Val)
fn fill_val(kind: &str, row: usize) -> PropertyValue {
    match kind {
        "int" => PropertyValue::Integer(row as i64),
        "str" => PropertyValue::String(row.to_string()),
        "float" => PropertyValue::Float(row as f64 + 0.5),
        "bool" => PropertyValue::Boolean(row % 2 == 0),
        _ => panic!("kind {kind}"),
    }
}

fn elem_bytes(kind: &str) -> usize {
    match kind {
        "int" => std::mem::size_of::<i64>(),
        "float" => std::mem::size_of::<f64>(),
        "str" => std::mem::size_of::<String>(),
        "bool" => std::mem::size_of::<bool>(),
        _ => 8,
    }
}

/// largest span for which the real rule still prefers dense with `entries` entries
fn max_span(entries: usize, elem: usize) -> usize {
    let (mut lo, mut hi) = (0usize, 1usize << 40);
    while lo + 1 < hi {
        let mid = (lo + hi) / 2;
        if dense_is_smaller(mid, entries, elem) {
            lo = mid;
        } else {
            hi = mid;
        }
    }
    lo
}

#[derive(Clone, PartialEq, Debug)]
struct Geom {
    ty: &'static str,
    dense: Option<(usize, usize)>, // base, span
    len: usize,
}

fn geom_of(col: Option<&Column>) -> Geom {
    fn g<T>(d: &ColumnData<T>) -> Option<(usize, usize)> {
        match d {
            ColumnData::Dense { base, values, .. } => Some((*base, values.len())),
            ColumnData::Sparse(_) => None,
        }
    }
    match col {
        None => Geom { ty: "none", dense: None, len: 0 },
        Some(c) => {
            let (ty, dense) = match c {
                Column::Int(d) => ("int", g(d)),
                Column::Float(d) => ("float", g(d)),
                Column::String(d) => ("str", g(d)),
                Column::Bool(d) => ("bool", g(d)),
                Column::Other(_) => ("other", None),
            };
            Geom { ty, dense, len: c.len() }
        }
    }
}

/// rows physically held by the column (only used to decide WHERE to read through the public API)
fn physical_rows(col: &Column) -> Vec<usize> {
    fn p<T>(d: &ColumnData<T>) -> Vec<usize> {
        match d {
            ColumnData::Sparse(m) => m.keys().copied().collect(),
            ColumnData::Dense { base, values, .. } => vec![*base, *base + values.len().saturating_sub(1)],
        }
    }
    match col {
        Column::Int(d) => p(d),
        Column::Float(d) => p(d),
        Column::String(d) => p(d),
        Column::Bool(d) => p(d),
        Column::Other(m) => m.keys().copied().collect(),
    }
}

#[derive(Default)]
struct Cov(BTreeMap<String, u64>);
impl Cov {
    fn hit(&mut self, k: &str) {
        *self.0.entry(k.to_string()).or_insert(0) += 1;
    }
    fn change(&mut self, op: &str, a: &Geom, b: &Geom) {
        let rep = |g: &Geom| if g.ty == "other" { "other" } else if g.ty == "none" { "none" } else if g.dense.is_some() { "dense" } else { "sparse" };
        let (ra, rb) = (rep(a), rep(b));
        if ra != rb {
            self.hit(&format!("{ra}->{rb}"));
        } else if let (Some((b0, s0)), Some((b1, s1))) = (a.dense, b.dense) {
            if b1 < b0 {
                self.hit("dense:rebase-down");
            } else if s1 > s0 {
                self.hit("dense:grow-up");
            } else if b.len < a.len {
                self.hit("dense:remove");
            } else if b.len > a.len {
                self.hit("dense:fill-gap");
            } else if op == "Set" {
                self.hit("dense:overwrite");
            }
        } else if ra == "sparse" && op == "Set" && b.len > a.len && b.len >= 1024 && b.len.is_power_of_two() {
            self.hit("sparse:promotion-considered-and-declined");
        }
    }
}

#[derive(Clone)]
struct FillRec {
    key: String,
    lo: usize,
    n: usize,
    step: usize,
    kind: String,
}

#[derive(Clone, Default)]
struct Sess {
    store: ColumnStore,
    keys: Vec<String>,
    fills: Vec<FillRec>,
    touched: BTreeMap<String, BTreeSet<usize>>,
}

impl Sess {
    fn note_key(&mut self, k: &str) {
        if !self.keys.iter().any(|x| x == k) {
            self.keys.push(k.to_string());
        }
    }
    fn geom(&self, k: &str) -> Geom {
        geom_of(self.store.get_column(k))
    }
    fn fill(&mut self, f: &FillRec, order: &str, rng: &mut StdRng) -> Result<(), String> {
        self.note_key(&f.key);
        let mut rows: Vec<usize> = (0..f.n).map(|j| f.lo + j * f.step).collect();
        match order {
            "desc" => rows.reverse(),
            "shuffle" => rows.shuffle(rng),
            _ => {}
        }
        let st = &mut self.store;
        catch(|| {
            for r in rows {
                st.set_property(r, &f.key, fill_val(&f.kind, r));
            }
        })?;
        self.fills.push(f.clone());
        Ok(())
    }
    fn reads(&self, rows: &BTreeSet<usize>) -> Value {
        let mut reads = Vec::new();
        let mut keys = Vec::new();
        for &r in rows {
            for k in &self.keys {
                reads.push(json!([r, k, tok(&self.store.get_property(r, k))]));
            }
            keys.push(json!([r, self.store.get_property_keys(r)]));
        }
        json!({"reads": reads, "keys": keys, "scans": []})
    }
    /// run-length compressed read of every row of the window around the bulk loads of `key`
    /// plus every individually written / physically held row outside it
    fn scan(&self, key: &str) -> Value {
        let fs: Vec<&FillRec> = self.fills.iter().filter(|f| f.key == key).collect();
        let (mut from, mut to) = (1usize, 0usize);
        if !fs.is_empty() {
            from = fs.iter().map(|f| f.lo).min().unwrap().saturating_sub(8);
            to = fs.iter().map(|f| f.lo + (f.n - 1) * f.step).max().unwrap() + 8;
        }
        // a dense band is read completely (unless it is huge: then only its ends)
        if let Some((b, span)) = self.geom(key).dense {
            if span <= 12_000 {
                if from > to {
                    from = b;
                    to = b + span - 1;
                } else {
                    from = from.min(b);
                    to = to.max(b + span - 1);
                }
            }
        }
        let mut outside: BTreeSet<usize> = BTreeSet::new();
        if let Some(t) = self.touched.get(key) {
            outside.extend(t.iter().copied());
        }
        if let Some(c) = self.store.get_column(key) {
            outside.extend(physical_rows(c));
        }
        let mut entries: Vec<(usize, String)> = Vec::new();
        let mut outs: Vec<Value> = Vec::new();
        if from <= to {
            for r in from..=to {
                let t = tok(&self.store.get_property(r, key));
                if t != "null" {
                    entries.push((r, t));
                }
            }
        }
        for r in outside {
            if from <= to && r >= from && r <= to {
                continue;
            }
            outs.push(json!([r, tok(&self.store.get_property(r, key))]));
        }
        // tile the window with segments (pure run-length compression of what was read)
        let mut segs: Vec<Value> = Vec::new();
        let seg = |lo: usize, hi: usize, step: usize, kind: &str, t: &str| json!({"lo": lo, "hi": hi, "step": step, "kind": kind, "tok": t});
        let mut cur = from;
        let mut i = 0;
        while i < entries.len() {
            let (r0, t0) = (entries[i].0, entries[i].1.clone());
            if r0 > cur {
                segs.push(seg(cur, r0 - 1, 1, "null", ""));
            }
            let kind = KINDS.iter().find(|k| tok(&fill_val(k, r0)) == t0);
            let mut done = false;
            if let (Some(kind), true) = (kind, i + 2 < entries.len()) {
                let step = entries[i + 1].0 - r0;
                let m = |j: usize| entries[i + j].0 == r0 + j * step && entries[i + j].1 == tok(&fill_val(kind, r0 + j * step));
                if step <= 8 && m(1) {
                    let mut n = 2;
                    while i + n < entries.len() && m(n) {
                        n += 1;
                    }
                    if n >= 3 {
                        let hi = r0 + (n - 1) * step;
                        segs.push(seg(r0, hi, step, kind, ""));
                        cur = hi + 1;
                        i += n;
                        done = true;
                    }
                }
            }
            if !done {
                segs.push(seg(r0, r0, 1, "tok", &t0));
                cur = r0 + 1;
                i += 1;
            }
        }
        if from <= to && cur <= to {
            segs.push(seg(cur, to, 1, "null", ""));
        }
        json!({"key": key, "from": from, "to": to, "segs": segs, "outs": outs})
    }
    fn scan_all(&self, rows: &BTreeSet<usize>) -> Value {
        let mut o = self.reads(rows);
        o["scans"] = Value::Array(self.keys.iter().map(|k| self.scan(k)).collect());
        o
    }
}

/// one mutator call on the real store, with representation-change bookkeeping
fn apply(s: &mut Sess, cov: &mut Cov, op: &str, row: usize, key: &str, val: Option<&PropertyValue>) -> &'static str {
    let before: Vec<(String, Geom)> = s.keys.iter().map(|k| (k.clone(), s.geom(k))).collect();
    let st = &mut s.store;
    let r = catch(|| match op {
        "Set" => st.set_property(row, key, val.unwrap().clone()),
        "Remove" => st.remove_property(row, key),
        "ClearRow" => st.clear_row(row),
        _ => panic!("op {op}"),
    });
    if r.is_err() {
        return "panic";
    }
    if op != "ClearRow" {
        s.note_key(key); // the touched cell is always read back, also when the key has no column
    }
    if op != "ClearRow" {
        s.touched.entry(key.to_string()).or_default().insert(row);
    } else {
        for k in s.keys.clone() {
            s.touched.entry(k).or_default().insert(row);
        }
    }
    for (k, g0) in before {
        let g1 = s.geom(&k);
        cov.change(op, &g0, &g1);
    }
    "ok"
}

// ------------------------------------------------------------------------------- scenarios
struct Scenario {
    name: String,
    base: Sess,
    fill: FillRec,
    order: String,
    rows: [usize; 6],
    probes: BTreeSet<usize>,
    kind_a: String,
    kind_b: String,
}

fn concrete(kind: &str, abs: &str) -> PropertyValue {
    // v1: a value of the column's type, v2: the type's DEFAULT value (what a dense slot holds when
    // absent), w1: a value of another primitive type (spills the column), o1: a variant without a
    // typed column, nul: PropertyValue::Null
    match (kind, abs) {
        (_, "nul") => PropertyValue::Null,
        (_, "o1") => PropertyValue::DateTime(9),
        ("int", "v1") => PropertyValue::Integer(-7),
        ("int", "v2") => PropertyValue::Integer(0),
        ("int", "w1") => PropertyValue::String("w".into()),
        ("str", "v1") => PropertyValue::String("x".into()),
        ("str", "v2") => PropertyValue::String(String::new()),
        ("str", "w1") => PropertyValue::Integer(3),
        ("float", "v1") => PropertyValue::Float(2.5),
        ("float", "v2") => PropertyValue::Float(0.0),
        ("float", "w1") => PropertyValue::Boolean(true),
        ("bool", "v1") => PropertyValue::Boolean(true),
        ("bool", "v2") => PropertyValue::Boolean(false),
        ("bool", "w1") => PropertyValue::Float(1.5),
        _ => panic!("value {abs} for kind {kind}"),
    }
}

/// scenario name: <shape>-<kind>-<near|break>; shapes: dense (1024 contiguous rows, promoted),
/// sparse (1023 rows: the next new row crosses the promotion threshold), gappy (1024 rows, every
/// second one: dense with absent slots inside), desc (1100 rows loaded downward: promotion at
/// 1024 then 76 rebases), big (2048 rows: promoted at 1024, grown, power of two again)
fn scenario(name: &str) -> Scenario {
    let p: Vec<&str> = name.split('-').collect();
    let (shape, kind, inst) = (p[0], p[1], p[2]);
    let b = 40_000usize;
    let (n, step, order) = match shape {
        "dense" => (1024, 1, "asc"),
        "sparse" => (1023, 1, "asc"),
        "gappy" => (1024, 2, "asc"),
        "desc" => (1100, 1, "desc"),
        "big" => (2048, 1, "shuffle"),
        _ => panic!("shape {shape}"),
    };
    let fill = FillRec { key: "a".into(), lo: b, n, step, kind: kind.into() };
    let mut base = Sess::default();
    let mut rng = StdRng::seed_from_u64(7);
    base.fill(&fill, order, &mut rng).expect("prefill panicked");
    base.note_key("b");
    let top = b + (n - 1) * step;
    let ms = max_span(n + 1, elem_bytes(kind));
    let mid = b + (n / 2) * step;
    let rows = match inst {
        // 1 = base-1, 2 = base, 3 = mid, 4 = top, 5 = top+1, 6 = far
        "near" => [b - 1, b, if shape == "gappy" { mid + 1 } else { mid }, top, top + 1, 70_000_000],
        // break-even rows of dense_is_smaller for n+1 entries:
        // 1 = first row below the base that demotes, 2 = last row below that rebases, 3 = mid,
        // 4 = last row above that grows, 5 = first row above that demotes, 6 = row 0
        "break" => [top + 1 - ms - 1, top + 1 - ms, mid, b + ms - 1, b + ms, 0],
        _ => panic!("inst {inst}"),
    };
    let mut probes: BTreeSet<usize> = rows.iter().copied().collect();
    for r in [b - 2, b + 1, b + step, top - step, top + 2, mid + 1] {
        probes.insert(r);
    }
    let kind_b = if kind == "int" { "str" } else { "int" };
    Scenario { name: name.into(), base, fill, order: order.into(), rows, probes, kind_a: kind.into(), kind_b: kind_b.into() }
}

fn run_scripted(sc: &Scenario, s: &Script, tr: &mut Trace, cov: &mut Cov) -> Res<()> {
    tr.reset(&format!("{}@{}", s.sid, sc.name))?;
    let mut sess = Sess::default();
    for step in &s.steps {
        let op = gs(step, "op");
        if op == "Load" {
            sess = sc.base.clone();
            let f = &sc.fill;
            let g = sess.geom("a");
            tr.emit(json!({"ev": "Fill", "key": f.key, "lo": f.lo, "n": f.n, "step": f.step, "kind": f.kind, "order": sc.order,
                "res": "ok", "rep": format!("{}:{:?}", g.ty, g.dense), "obs": sess.reads(&sc.probes)}))?;
            continue;
        }
        let cls = gi(step, "row") as usize;
        let row = sc.rows[cls - 1];
        let key = step.get("key").and_then(|k| k.as_str()).unwrap_or("a").to_string();
        let val = step.get("val").and_then(|v| v.as_str()).map(|a| concrete(if key == "a" { &sc.kind_a } else { &sc.kind_b }, a));
        let res = apply(&mut sess, cov, op, row, &key, val.as_ref());
        let g = sess.geom("a");
        let mut ev = json!({"ev": op, "row": row, "cls": cls, "res": res, "rep": format!("{}:{:?}", g.ty, g.dense)});
        if op != "ClearRow" {
            ev["key"] = json!(key);
        }
        if let Some(v) = &val {
            ev["val"] = json!(tok(v));
        }
        if res == "panic" {
            ev["obs"] = json!({"reads": [], "keys": [], "scans": []});
            tr.emit(ev)?;
            return Ok(());
        }
        ev["obs"] = sess.reads(&sc.probes);
        tr.emit(ev)?;
    }
    tr.emit(json!({"ev": "Scan", "obs": sess.scan_all(&sc.probes)}))?;
    Ok(())
}

// ------------------------------------------------------------------------------- random driver
fn pick<'a, T>(rng: &mut StdRng, xs: &'a [T]) -> &'a T {
    &xs[rng.gen_range(0..xs.len())]
}

fn run_random(sid: &str, seed: u64, nev: usize, tr: &mut Trace, cov: &mut Cov) -> Res<()> {
    tr.reset(sid)?;
    let mut rng = StdRng::seed_from_u64(seed);
    let mut sess = Sess::default();
    let keys = ["k0", "k1", "k2", "k3"];
    let kinds: Vec<&str> = keys.iter().map(|_| *pick(&mut rng, &KINDS)).collect();
    let mut band: Vec<(usize, usize)> = vec![(0, 0); 4]; // rows of interest per key (lo, hi)
    let mut emitted = 0usize;
    let mut since_scan = 0usize;
    let mut dead = false;

    let do_fill = |sess: &mut Sess, rng: &mut StdRng, tr: &mut Trace, cov: &mut Cov, f: FillRec| -> Res<bool> {
        let order = *pick(rng, &["asc", "asc", "desc", "shuffle"]);
        let g0 = sess.geom(&f.key);
        let r = sess.fill(&f, order, rng);
        let g1 = sess.geom(&f.key);
        cov.change("Fill", &g0, &g1);
        let mut probe: BTreeSet<usize> = BTreeSet::new();
        let top = f.lo + (f.n - 1) * f.step;
        for r in [f.lo.saturating_sub(1), f.lo, f.lo + 1, top - 1, top, top + 1] {
            probe.insert(r);
        }
        let ok = r.is_ok();
        let obs = if ok { sess.scan_all(&probe) } else { json!({"reads": [], "keys": [], "scans": []}) };
        tr.emit(json!({"ev": "Fill", "key": f.key, "lo": f.lo, "n": f.n, "step": f.step, "kind": f.kind, "order": order,
            "res": if ok { "ok" } else { "panic" }, "rep": format!("{}:{:?}", g1.ty, g1.dense), "obs": obs}))?;
        Ok(ok)
    };

    // phase A: two bulk-loaded columns around the promotion thresholds
    for ki in 0..2 {
        let n = *pick(&mut rng, &[1023usize, 1024, 1025, 1500, 2047, 2048, 2049, 900]);
        let step = *pick(&mut rng, &[1usize, 1, 1, 2, 3]);
        let lo = rng.gen_range(5_000..60_000);
        band[ki] = (lo, lo + (n - 1) * step);
        if !do_fill(&mut sess, &mut rng, tr, cov, FillRec { key: keys[ki].into(), lo, n, step, kind: kinds[ki].into() })? {
            return Ok(());
        }
        emitted += 1;
    }
    // phase B plan: k2 is built by individually logged writes crossing 1024 entries
    let lo2 = rng.gen_range(5_000..60_000);
    let mut plan: Vec<usize> = (lo2..lo2 + 1200).filter(|_| rng.gen_range(0..10) != 0).collect();
    match rng.gen_range(0..3) {
        0 => plan.reverse(),
        1 => plan.shuffle(&mut rng),
        _ => {}
    }
    band[2] = (lo2, lo2 + 1199);
    band[3] = (rng.gen_range(100..1000), 0);
    band[3].1 = band[3].0 + 64;

    while emitted < nev && !dead {
        // choose operation
        let (op, ki, row, val): (&str, usize, usize, Option<PropertyValue>);
        if !plan.is_empty() && rng.gen_range(0..10) < 8 {
            let r = plan.pop().unwrap();
            op = "Set";
            ki = 2;
            row = r;
            val = Some(match kinds[2] {
                "int" => PropertyValue::Integer(rng.gen_range(-3..4)),
                "str" => PropertyValue::String(format!("p{}", rng.gen_range(0..3))),
                "float" => PropertyValue::Float(rng.gen_range(0..4) as f64 * 0.5),
                _ => PropertyValue::Boolean(rng.gen()),
            });
        } else {
            // k2 is left alone while it is being built row by row (a far write would postpone its promotion)
            ki = if plan.is_empty() { *pick(&mut rng, &[0usize, 0, 0, 1, 1, 1, 2, 2, 3]) } else { *pick(&mut rng, &[0usize, 0, 1, 1, 3]) };
            let key = keys[ki];
            let g = sess.geom(key);
            let (lo, hi) = band[ki];
            let elem = elem_bytes(if g.ty == "none" || g.ty == "other" { kinds[ki] } else { g.ty });
            let c = rng.gen_range(0..100);
            row = if c < 25 {
                *pick(&mut rng, &[lo.saturating_sub(2), lo.saturating_sub(1), lo, lo + 1, hi.saturating_sub(1), hi, hi + 1, hi + 2])
            } else if c < 40 {
                // break-even rows of the real rule for the current geometry
                let ms = max_span(g.len + 1, elem);
                let (b, e) = match g.dense {
                    Some((b, s)) => (b, b + s),
                    None => {
                        let ph = sess.store.get_column(key).map(physical_rows).unwrap_or_default();
                        (ph.iter().copied().min().unwrap_or(lo), ph.iter().copied().max().unwrap_or(hi) + 1)
                    }
                };
                let d = rng.gen_range(0..3usize);
                if rng.gen() {
                    b + ms + d - 2
                } else {
                    (e + 1 + d).saturating_sub(ms + 2)
                }
            } else if c < 65 {
                rng.gen_range(lo..=hi.max(lo))
            } else if c < 75 {
                let t = sess.touched.get(key).cloned().unwrap_or_default();
                if t.is_empty() { lo } else { *t.iter().nth(rng.gen_range(0..t.len())).unwrap() }
            } else if c < 85 {
                if rng.gen_range(0..4) == 0 { rng.gen_range(0..4) } else { hi + rng.gen_range(10_000..10_000_000) }
            } else if rng.gen() {
                hi + rng.gen_range(1..200)
            } else {
                lo.saturating_sub(rng.gen_range(1..200))
            };
            let o = rng.gen_range(0..100);
            if o < 3 && ki < 3 && g.dense.is_none() && g.ty != "other" && g.len >= 1024 {
                // refill: push a sparse column across the next power of two
                let need = g.len.next_power_of_two().max(g.len + 1) - g.len;
                let need = if g.len.is_power_of_two() { g.len } else { need };
                if need <= 1200 {
                    let n = (need + rng.gen_range(0..3)).saturating_sub(1).max(1);
                    let f = FillRec { key: key.into(), lo: hi + 1 + rng.gen_range(0..3), n, step: 1, kind: kinds[ki].into() };
                    band[ki].1 = f.lo + n - 1;
                    if !do_fill(&mut sess, &mut rng, tr, cov, f)? {
                        return Ok(());
                    }
                    emitted += 1;
                    continue;
                }
            }
            if o < 58 {
                op = "Set";
                let vk = rng.gen_range(0..100);
                let kind = if g.ty == "none" || g.ty == "other" { kinds[ki] } else { g.ty };
                val = Some(if vk < 2 && sess.touched.get(key).map_or(0, |t| t.len()) > 30 {
                    concrete(kind, "w1") // type spill, late in a column's life
                } else if vk < 5 {
                    PropertyValue::Null
                } else if vk < 7 && g.ty == "other" {
                    PropertyValue::Array(vec![PropertyValue::Integer(1), PropertyValue::Integer(2)])
                } else if vk < 30 {
                    concrete(kind, "v2") // the type's default value
                } else if vk < 50 {
                    fill_val(kind, row)
                } else {
                    match kind {
                        "int" => PropertyValue::Integer(rng.gen_range(-5..6)),
                        "str" => PropertyValue::String(format!("q{}", rng.gen_range(0..4))),
                        "float" => PropertyValue::Float(rng.gen_range(-4..5) as f64 * 0.25),
                        _ => PropertyValue::Boolean(rng.gen()),
                    }
                });
            } else if o < 90 {
                op = "Remove";
                val = None;
            } else {
                op = "ClearRow";
                val = None;
            }
        }
        let key = keys[ki];
        let reps0: Vec<Geom> = keys.iter().map(|k| sess.geom(k)).collect();
        let res = apply(&mut sess, cov, op, row, key, val.as_ref());
        let reps1: Vec<Geom> = keys.iter().map(|k| sess.geom(k)).collect();
        let g = sess.geom(key);
        let mut ev = json!({"ev": op, "row": row, "res": res, "rep": format!("{}:{:?}", g.ty, g.dense)});
        if op != "ClearRow" {
            ev["key"] = json!(key);
        }
        if let Some(v) = &val {
            ev["val"] = json!(tok(v));
        }
        if res == "panic" {
            ev["obs"] = json!({"reads": [], "keys": [], "scans": []});
            dead = true;
        } else {
            let mut probe: BTreeSet<usize> = BTreeSet::new();
            probe.insert(row);
            probe.insert(row + 1);
            probe.insert(row.saturating_sub(1));
            for k in keys {
                if let Some(t) = sess.touched.get(k) {
                    if !t.is_empty() {
                        probe.insert(*t.iter().nth(rng.gen_range(0..t.len())).unwrap());
                    }
                }
            }
            // representation changed (layout, not just length): read whole columns
            let changed = reps0.iter().zip(reps1.iter()).any(|(a, b)| a.ty != b.ty || a.dense != b.dense);
            since_scan += 1;
            if (changed && since_scan >= 10) || since_scan >= 300 {
                ev["obs"] = sess.scan_all(&probe);
                since_scan = 0;
            } else {
                ev["obs"] = sess.reads(&probe);
            }
        }
        tr.emit(ev)?;
        emitted += 1;
    }
    if !dead {
        let probe: BTreeSet<usize> = BTreeSet::new();
        tr.emit(json!({"ev": "Scan", "obs": sess.scan_all(&probe)}))?;
    }
    Ok(())
}

fn run(scripts: &str, trace: &str, opts: &Opts) -> Res<()> {
    let scripts = read_scripts(scripts)?;
    let mut tr = Trace::create(trace)?;
    let mut cov = Cov::default();
    let names = opts.get_str("scenarios", "dense-int-near");
    let scenarios: Vec<Scenario> = names.split(',').filter(|s| !s.is_empty()).map(scenario).collect();
    for s in &scripts {
        if let Some(r) = s.raw.get("random") {
            run_random(&s.sid, r["seed"].as_u64().unwrap(), r["events"].as_u64().unwrap() as usize, &mut tr, &mut cov)?;
        } else {
            for sc in &scenarios {
                run_scripted(sc, s, &mut tr, &mut cov)?;
            }
        }
    }
    let n = tr.events;
    tr.finish()?;
    std::fs::write(format!("{trace}.cov.json"), serde_json::to_string(&cov.0)?)?;
    println!("{} events; representation changes {:?}", n, cov.0);
    Ok(())
}

fn main() {
    harness_main(run);
}
