//! C15: write-ahead log (src/persistence/wal.rs) under reopen, crash-truncation and byte corruption.
//!
//! Script steps (one per Wal.tla action):
//!   Append{tok}        wal.append(CreateNode{tenant:"t", node_id:tok, labels:[], properties:[tok;tok]})
//!   Flush              wal.flush()
//!   SetSync{on}        wal.set_sync_mode(on)
//!   Checkpoint         wal.checkpoint(wal.current_sequence())
//!   Reopen             drop(wal) (BufWriter flushes) ; Wal::new(dir)
//!   Truncate{b}        crash: everything the BufWriter still holds is lost, the newest file is cut at
//!                      byte b (set_len), then Wal::new(dir)
//!   Flip{f,b,m}        byte b of the f-th file (name order, 1-based) is XORed with m (the log stays open)
//! After every step the observation is: current_sequence(), the directory ([first-seq-of-name, size]) and
//! replay(from) for from = 0..=maxfrom: result class, returned last sequence, delivered payload tokens.
use samyama::persistence::wal::{Wal, WalEntry, WalError};
use serde_json::{json, Value};
use std::path::{Path, PathBuf};
use verif_harness::*;

const CAP: u64 = 1 << 30;

fn entry_for(tok: u64) -> WalEntry {
    WalEntry::CreateNode { tenant: "t".to_string(), node_id: tok, labels: vec![], properties: vec![tok as u8; tok as usize] }
}

/// projection of a delivered entry onto the payload token of the specification:
/// tok for exactly the entry Append{tok} wrote, 1000+sequence for a checkpoint marker, 0 for anything else
fn token_of(e: &WalEntry) -> u64 {
    match e {
        WalEntry::CreateNode { tenant, node_id, labels, properties }
            if tenant == "t"
                && labels.is_empty()
                && *node_id < 200
                && properties.len() as u64 == *node_id
                && properties.iter().all(|b| *b as u64 == *node_id) =>
        {
            *node_id
        }
        WalEntry::Checkpoint { sequence, .. } if *sequence < 1000 => 1000 + *sequence,
        _ => 0,
    }
}

fn wal_files(dir: &Path) -> Vec<(u64, PathBuf, u64)> {
    let mut v = Vec::new();
    for e in std::fs::read_dir(dir).unwrap().flatten() {
        let name = e.file_name().to_string_lossy().to_string();
        if let Some(h) = name.strip_prefix("wal-").and_then(|s| s.strip_suffix(".log")) {
            if let Ok(n) = u64::from_str_radix(h, 16) {
                v.push((n, e.path(), e.metadata().unwrap().len()));
            }
        }
    }
    v.sort();
    v
}

fn class(e: &WalError) -> &'static str {
    match e {
        WalError::Io(_) => "io",
        WalError::Serialization(_) => "ser",
        WalError::Corruption(_) => "corrupt",
        WalError::InvalidEntry(_) => "invalid",
    }
}

fn observe(wal: &Wal, dir: &Path, maxfrom: u64) -> Value {
    let files: Vec<Value> = wal_files(dir).iter().map(|(n, _, s)| json!([n.min(&CAP), s])).collect();
    let mut replays = Vec::new();
    for from in 0..=maxfrom {
        let mut toks: Vec<u64> = Vec::new();
        let r = catch(|| {
            wal.replay(from, |e| {
                toks.push(token_of(e));
                Ok(())
            })
        });
        let (res, last) = match r {
            Ok(Ok(last)) => ("ok", last.min(CAP)),
            Ok(Err(e)) => (class(&e), 0),
            Err(_) => ("panic", 0),
        };
        replays.push(json!({"res": res, "last": last, "toks": toks}));
    }
    json!({"seq": wal.current_sequence().min(CAP), "files": files, "replays": replays})
}

fn run(scripts: &str, trace: &str, opts: &Opts) -> Res<()> {
    let maxfrom = opts.get_u64("maxfrom", 7);
    let scripts = read_scripts(scripts)?;
    let mut tr = Trace::create(trace)?;
    for s in &scripts {
        tr.reset(&s.sid)?;
        let tmp = tempfile::tempdir()?;
        let dir = tmp.path().join("wal");
        let mut wal = Some(Wal::new(&dir)?);
        for step in &s.steps {
            let op = gs(step, "op");
            let mut res = json!("ok");
            match op {
                "Append" => {
                    let tok = gi(step, "tok") as u64;
                    // res is the returned sequence number; 0 (never a valid one) when append failed
                    res = match wal.as_mut().unwrap().append(entry_for(tok)) {
                        Ok(n) => json!(n.min(CAP)),
                        Err(_) => json!(0),
                    };
                }
                "SetSync" => wal.as_mut().unwrap().set_sync_mode(step["on"].as_bool().unwrap()),
                "Flush" => {
                    if let Err(e) = wal.as_mut().unwrap().flush() {
                        res = json!(class(&e));
                    }
                }
                "Checkpoint" => {
                    let w = wal.as_mut().unwrap();
                    let n = w.current_sequence();
                    if let Err(e) = w.checkpoint(n) {
                        res = json!(class(&e));
                    }
                }
                "Reopen" => {
                    drop(wal.take());
                    match Wal::new(&dir) {
                        Ok(w) => wal = Some(w),
                        Err(e) => res = json!(format!("openfail:{}", class(&e))),
                    }
                }
                "Truncate" => {
                    // crash: what was flushed stays, what the BufWriter holds is lost. Dropping the handle
                    // flushes (O_APPEND), so the files are cut back to their sizes before the drop.
                    let before = wal_files(&dir);
                    drop(wal.take());
                    for (_, p, sz) in &before {
                        std::fs::OpenOptions::new().write(true).open(p)?.set_len(*sz)?;
                    }
                    let b = gi(step, "b") as u64;
                    // the offsets of a script are those of the model's directory; if the real directory differs
                    // (the trace has been rejected before this step then) the cut is recorded as not applicable
                    match before.last() {
                        Some((_, p, sz)) if b <= *sz => {
                            std::fs::OpenOptions::new().write(true).open(p)?.set_len(b)?;
                        }
                        _ => res = json!("inapplicable"),
                    }
                    match Wal::new(&dir) {
                        Ok(w) => wal = Some(w),
                        Err(e) => res = json!(format!("openfail:{}", class(&e))),
                    }
                }
                "Flip" => {
                    let fl = wal_files(&dir);
                    let b = gi(step, "b") as u64;
                    match fl.get(gi(step, "f") as usize - 1) {
                        Some((_, p, sz)) if b < *sz => {
                            let mut bytes = std::fs::read(p)?;
                            bytes[b as usize] ^= gi(step, "m") as u8;
                            // in-place overwrite (same length); the open O_APPEND handle is unaffected
                            use std::io::{Seek, SeekFrom, Write};
                            let mut f = std::fs::OpenOptions::new().write(true).open(p)?;
                            f.seek(SeekFrom::Start(b))?;
                            f.write_all(&bytes[b as usize..b as usize + 1])?;
                        }
                        _ => res = json!("inapplicable"),
                    }
                }
                _ => panic!("unknown op {op}"),
            }
            // a log that cannot be opened is an observation too (never explained by the specification);
            // the rest of the script cannot run
            let Some(w) = wal.as_ref() else {
                tr.emit(event_from(step, json!({ "res": res, "obs": {"seq": 0, "files": [], "replays": []} })))?;
                break;
            };
            let obs = observe(w, &dir, maxfrom);
            tr.emit(event_from(step, json!({ "res": res, "obs": obs })))?;
        }
    }
    tr.finish()
}

fn main() {
    harness_main(run);
}
